//! C12 — descriptors passed with a request are delivered once, in order, never leaked.
//!
//! Monitor (conservation): every descriptor is an eventfd whose counter holds a unique tag, so
//! identity survives SCM_RIGHTS and can be read back exactly once. For every delivered request
//! the tags found in `Request.files` must be exactly the tags that arrived up to the read that
//! completed it and were not handed out before, in arrival order; no tag twice; after requests
//! and connection are dropped the process's descriptor table equals the baseline; sentinels
//! placed on every freed number detect a second close. Two engines: the scripted stream (exact
//! control of which read carries which descriptors) and a real socketpair with sendmsg.
use std::os::unix::io::{AsRawFd, RawFd};
use std::os::unix::net::UnixStream;

use micro_http::{ConnectionError, HttpConnection};
use vmm_sys_util::sock_ctrl_msg::ScmSocket;

use crate::conn::{guarded, Runner, RR};
use crate::gen::{self, GenOpts};
use crate::model::{m1, M1Event};
use crate::sim::open_fds;
use crate::stream::ReadEv;
use crate::util::{show, Fp, Rng, J};
use crate::Ctx;

fn new_tagged_fd(tag: u64) -> RawFd {
    // SAFETY: eventfd creation; the descriptor is owned by whoever receives it.
    unsafe { libc::eventfd(tag as libc::c_uint, libc::EFD_NONBLOCK | libc::EFD_CLOEXEC) }
}

/// Reads the tag back (resets the counter: a second read of the same eventfd gives 0).
fn read_tag(fd: RawFd) -> u64 {
    let mut v: u64 = 0;
    // SAFETY: read of 8 bytes into a local.
    let n = unsafe { libc::read(fd, &mut v as *mut u64 as *mut libc::c_void, 8) };
    if n == 8 {
        v
    } else {
        0
    }
}

fn devnull() -> RawFd {
    // SAFETY: plain open.
    unsafe { libc::open(b"/dev/null\0".as_ptr() as *const libc::c_char, libc::O_RDONLY | libc::O_CLOEXEC) }
}

fn is_devnull(fd: RawFd) -> bool {
    // SAFETY: fstat fills a local struct.
    unsafe {
        let mut st: libc::stat = std::mem::zeroed();
        libc::fstat(fd, &mut st) == 0 && (st.st_mode & libc::S_IFMT) == libc::S_IFCHR && libc::major(st.st_rdev) == 1 && libc::minor(st.st_rdev) == 3
    }
}

pub struct Case {
    pub stream: Vec<u8>,
    /// segment ends (cuts) and the number of descriptors sent with each segment (len = cuts+1),
    /// plus the number carried by the final EOF read
    pub cuts: Vec<usize>,
    pub fds_per_segment: Vec<usize>,
    pub fds_at_eof: usize,
    pub real_socket: bool,
    /// scripted engine only: the application pops delivered requests every `pop_every` reads (0 = after every read)
    pub pop_every: usize,
    /// scripted engine only: 0 = the write half is never used; 1 = between segments the application
    /// enqueues a response and calls try_write, and the stream accepts / fails / would block in turn
    pub write_mode: usize,
}

fn case_json(c: &Case) -> J {
    J::obj(vec![
        ("engine", J::s(if c.real_socket { "socketpair" } else { "scripted-stream" })),
        ("stream_hex", J::hexs(&c.stream)),
        ("stream_show", J::s(&show(&c.stream))),
        ("cuts", J::Arr(c.cuts.iter().map(|x| J::u(*x as u64)).collect())),
        ("fds_per_segment", J::Arr(c.fds_per_segment.iter().map(|x| J::u(*x as u64)).collect())),
        ("fds_at_eof", J::u(c.fds_at_eof as u64)),
        ("pop_every", J::u(c.pop_every as u64)),
        ("write_mode", J::u(c.write_mode as u64)),
    ])
}

/// Shared ownership oracle. `arrivals[i]` = (stream bytes consumed after read i, tags that arrived with read i),
/// `deliveries[i]` = tags found in the files of the requests delivered by read i (one Vec per request).
fn ownership_oracle(stream: &[u8], arrivals: &[(usize, Vec<u64>)], deliveries: &[Vec<Vec<u64>>]) -> Option<(String, String)> {
    let m = m1(stream, 51200);
    let ends: Vec<usize> = m.events.iter().filter_map(|e| if let M1Event::Deliver { at, .. } = e { Some(*at) } else { None }).collect();
    let mut pending: Vec<u64> = Vec::new();
    let mut next_req = 0usize;
    let mut handed: Vec<u64> = Vec::new();
    for (i, (consumed, tags)) in arrivals.iter().enumerate() {
        pending.extend_from_slice(tags);
        // requests completing in this read, in order
        let mut completing = 0;
        while next_req + completing < ends.len() && ends[next_req + completing] <= *consumed {
            completing += 1;
        }
        let got = &deliveries[i];
        if got.len() != completing {
            return Some(("delivery-count".into(), format!("read #{} (stream consumed up to {}): {} requests delivered, {} complete there", i, consumed, got.len(), completing)));
        }
        for (k, files) in got.iter().enumerate() {
            // the first request completing in this read (or a later one) receives everything pending
            let want: Vec<u64> = if k == 0 { std::mem::take(&mut pending) } else { Vec::new() };
            for t in files {
                if *t == 0 {
                    return Some(("descriptor-confused-or-delivered-twice".into(), format!("request #{} carries a descriptor whose tag cannot be read (already consumed or not one of ours)", next_req + k)));
                }
                if handed.contains(t) {
                    return Some(("descriptor-delivered-twice".into(), format!("descriptor tag {} was handed to two requests", t)));
                }
            }
            if *files != want {
                let kind = if files.len() < want.len() { "descriptor-lost-or-late" } else if files.len() > want.len() { "descriptor-extra" } else { "descriptor-order" };
                return Some((kind.into(), format!("request #{} (delivered by read #{}) carries tags {:?}; the descriptors that had arrived and were not yet handed out are {:?}", next_req + k, i, files, want)));
            }
            handed.extend_from_slice(files);
        }
        next_req += completing;
    }
    None
}

/// The same ownership rule when the application collects the delivered requests later than the read that
/// completed them: what each request must carry is fixed by the read that completes it, not by when it is popped.
fn ownership_oracle_flat(stream: &[u8], arrivals: &[(usize, Vec<u64>)], popped: &[Vec<u64>]) -> Option<(String, String)> {
    let m = m1(stream, 51200);
    let ends: Vec<usize> = m.events.iter().filter_map(|e| if let M1Event::Deliver { at, .. } = e { Some(*at) } else { None }).collect();
    let mut expected: Vec<Vec<u64>> = Vec::new();
    let mut pending: Vec<u64> = Vec::new();
    let mut next_req = 0usize;
    for (consumed, tags) in arrivals.iter() {
        pending.extend_from_slice(tags);
        let mut first = true;
        while next_req < ends.len() && ends[next_req] <= *consumed {
            expected.push(if first { std::mem::take(&mut pending) } else { Vec::new() });
            first = false;
            next_req += 1;
        }
    }
    if popped.len() != expected.len() {
        return Some(("delivery-count".into(), format!("{} requests collected, {} complete in the stream", popped.len(), expected.len())));
    }
    for (k, (got, want)) in popped.iter().zip(expected.iter()).enumerate() {
        if got != want {
            let kind = if got.len() < want.len() { "descriptor-lost-or-late" } else if got.len() > want.len() { "descriptor-handed-to-the-wrong-request" } else { "descriptor-order" };
            return Some((kind.into(), format!("request #{} (collected later than the read that completed it) carries tags {:?}; the descriptors that had arrived up to the read completing it and were not yet handed out are {:?}", k, got, want)));
        }
    }
    None
}

pub fn exec(ctx: &mut Ctx, c: &Case) -> bool {
    if !ctx.begin() {
        return false;
    }
    ctx.rep.evaluations += 1;
    let total_fds: usize = c.fds_per_segment.iter().sum::<usize>() + c.fds_at_eof;
    let m = m1(&c.stream, 51200);
    if m.dont_care || m.events.iter().any(|e| matches!(e, M1Event::Error { .. })) {
        return false; // the property is about input that parses without error
    }
    if total_fds > 0 {
        let mut f = Fp::new().bytes(&c.stream).u(c.real_socket as u64).u(c.fds_at_eof as u64);
        for x in c.cuts.iter().chain(c.fds_per_segment.iter()) {
            f = f.u(*x as u64);
        }
        ctx.rep.distinct(f.0);
    }
    let baseline = open_fds(1400);
    let mut next_tag = 1u64;
    let limit = baseline.iter().max().copied().unwrap_or(8) + 2 * total_fds as i32 + 40;
    let r = if c.real_socket { exec_socket(ctx, c, &mut next_tag, limit) } else { exec_scripted(ctx, c, &mut next_tag, limit) };
    let problem = match r {
        Err(p) => Some(p),
        Ok(()) => {
            // leak freedom: everything dropped, the descriptor table is back to the baseline
            let now = open_fds(1400);
            if now != baseline {
                let extra: Vec<&i32> = now.iter().filter(|fd| !baseline.contains(fd)).collect();
                let missing: Vec<&i32> = baseline.iter().filter(|fd| !now.contains(fd)).collect();
                Some((
                    if !extra.is_empty() { "descriptor-leak".into() } else { "foreign-descriptor-closed".into() },
                    format!("after dropping all requests and the connection: descriptors {:?} still open, {:?} closed that were open before ({} were passed)", extra, missing, total_fds),
                ))
            } else {
                None
            }
        }
    };
    // clean up whatever a faulty run left behind so that later cases are not disturbed
    for fd in open_fds(1400) {
        if !baseline.contains(&fd) {
            // SAFETY: closing descriptors this case created.
            unsafe { libc::close(fd) };
        }
    }
    ctx.rep.add("descriptors_passed", total_fds as u64);
    if let Some((k, d)) = problem {
        ctx.rep.violation(&format!("C12:{}", k), d, case_json(c));
        return true;
    }
    false
}

/// After the delivered requests are gone: occupy every free number below `limit` with a sentinel,
/// drop the connection, verify that no sentinel was closed.
fn sentinel_drop<F: FnOnce()>(limit: i32, drop_connection: F) -> Option<(String, String)> {
    let mut sentinels: Vec<RawFd> = Vec::new();
    loop {
        let fd = devnull();
        if fd < 0 {
            break;
        }
        if fd >= limit {
            // SAFETY: closing the descriptor just opened.
            unsafe { libc::close(fd) };
            break;
        }
        sentinels.push(fd);
    }
    drop_connection();
    let mut hit = None;
    for s in &sentinels {
        if !is_devnull(*s) {
            hit = Some(*s);
        }
    }
    for s in &sentinels {
        if is_devnull(*s) {
            // SAFETY: closing our sentinel.
            unsafe { libc::close(*s) };
        }
    }
    hit.map(|s| ("double-close".into(), format!("dropping the connection closed descriptor number {} although it had already been handed out and closed: a sentinel placed on that number is gone", s)))
}

fn exec_scripted(ctx: &mut Ctx, c: &Case, next_tag: &mut u64, limit: i32) -> Result<(), (String, String)> {
    let mut r = Runner::new(None);
    r.keep_files = true;
    r.defer_pop = c.pop_every > 0;
    let mut popped: Vec<Vec<u64>> = Vec::new();
    let mut nreads = 0usize;
    let mut arrivals: Vec<(usize, Vec<u64>)> = Vec::new();
    let mut deliveries: Vec<Vec<Vec<u64>>> = Vec::new();
    let mut consumed = 0usize;
    let mut start = 0usize;
    let mut max_fd = 64;
    let nseg = c.cuts.len() + 1;
    for si in 0..nseg {
        let end = if si < c.cuts.len() { c.cuts[si] } else { c.stream.len() };
        if end <= start {
            continue;
        }
        let nf = c.fds_per_segment.get(si).copied().unwrap_or(0);
        let mut tags = Vec::new();
        let mut fds = Vec::new();
        for _ in 0..nf {
            let fd = new_tagged_fd(*next_tag);
            if fd < 0 {
                break;
            }
            max_fd = max_fd.max(fd + 8);
            tags.push(*next_tag);
            fds.push(fd);
            *next_tag += 1;
        }
        if si > 0 && (si + c.stream.len()) % 2 == 0 {
            if let Some(e) = r.empty_read(si % 4 == 0) {
                return Err(("fault".into(), e));
            }
            ctx.rep.count("empty_reads_between_segments");
        }
        if c.write_mode > 0 && si > 0 {
            // the write half is used (and fails) between two reads: nothing on the read side may change
            use crate::stream::WriteEv;
            let ev = match (si + c.stream.len()) % 5 {
                0 => WriteEv::Accept(usize::MAX),
                1 => WriteEv::Err(libc::EPIPE),
                2 => WriteEv::WouldBlock,
                3 => WriteEv::Zero,
                _ => WriteEv::Err(libc::ECONNRESET),
            };
            let mut resp = micro_http::Response::new(micro_http::Version::Http11, micro_http::StatusCode::OK);
            resp.set_body(micro_http::Body::new("answer".to_string()));
            r.conn.enqueue_response(resp);
            r.script.push_write(ev);
            match guarded(|| r.conn.try_write()) {
                Err(p) => return Err(("fault".into(), format!("try_write panicked: {}", p))),
                Ok(Err(_)) => ctx.rep.count("failed_writes_between_reads"),
                Ok(Ok(())) => ctx.rep.count("writes_between_reads"),
            }
            r.script.clear_writes();
            if r.conn.verif_probe().files > 0 {
                ctx.rep.count("writes_while_descriptors_wait_for_their_request");
            }
        }
        r.script.push_read(ReadEv::Data(c.stream[start..end].to_vec(), fds));
        start = end;
        let mut first = true;
        while r.script.pending_reads() > 0 {
            let before = r.script.pending_read_bytes();
            let so = r.read();
            consumed += before - r.script.pending_read_bytes();
            match so.res {
                RR::Ok => {}
                other => return Err(("fault".into(), format!("try_read returned {:?} on error-free input", other))),
            }
            let got: Vec<Vec<u64>> = so.files.iter().map(|fs| fs.iter().map(|f| read_tag(f.as_raw_fd())).collect()).collect();
            arrivals.push((consumed, if first { tags.clone() } else { Vec::new() }));
            deliveries.push(got);
            first = false;
            nreads += 1;
            if c.pop_every > 0 && nreads % c.pop_every == 0 {
                let (_views, files) = r.pop_all();
                for fs in files {
                    popped.push(fs.iter().map(|f| read_tag(f.as_raw_fd())).collect());
                }
            }
            ctx.rep.count(match so.delivered.len() {
                0 => "reads_completing_no_request",
                1 => "reads_completing_one_request",
                _ => "reads_completing_several_requests",
            });
            drop(so); // drops the delivered requests' files
        }
    }
    if c.fds_at_eof > 0 {
        let mut fds = Vec::new();
        for _ in 0..c.fds_at_eof {
            let fd = new_tagged_fd(*next_tag);
            *next_tag += 1;
            if fd >= 0 {
                max_fd = max_fd.max(fd + 8);
                fds.push(fd);
            }
        }
        let so = r.feed(ReadEv::Eof(fds));
        if so.res != RR::Closed || !so.delivered.is_empty() {
            return Err(("fault".into(), format!("EOF read returned {:?} / {} deliveries", so.res, so.delivered.len())));
        }
        ctx.rep.count("eof_reads_carrying_descriptors");
    }
    if c.pop_every > 0 {
        let (_views, files) = r.pop_all();
        for fs in files {
            popped.push(fs.iter().map(|f| read_tag(f.as_raw_fd())).collect());
        }
        ctx.rep.count("cases_with_late_collection");
        if let Some(p) = ownership_oracle_flat(&c.stream, &arrivals, &popped) {
            return Err(p);
        }
    } else if let Some(p) = ownership_oracle(&c.stream, &arrivals, &deliveries) {
        return Err(p);
    }
    let left = r.conn.verif_probe().files;
    if left > 0 {
        ctx.rep.add("descriptors_left_with_the_connection", left as u64);
    }
    let Runner { conn, script, .. } = r;
    let _ = max_fd;
    if let Some(p) = sentinel_drop(limit, move || drop(conn)) {
        return Err(p);
    }
    drop(script);
    Ok(())
}

fn exec_socket(ctx: &mut Ctx, c: &Case, next_tag: &mut u64, limit: i32) -> Result<(), (String, String)> {
    let (a, b) = UnixStream::pair().map_err(|e| ("harness".to_string(), e.to_string()))?;
    a.set_nonblocking(true).ok();
    let watch = a.try_clone().map_err(|e| ("harness".to_string(), e.to_string()))?;
    let unread = |s: &UnixStream| -> usize {
        let mut n: libc::c_int = 0;
        // SAFETY: FIONREAD writes an int.
        unsafe { libc::ioctl(s.as_raw_fd(), libc::FIONREAD, &mut n) };
        n as usize
    };
    let mut conn = HttpConnection::new(a);
    let mut arrivals: Vec<(usize, Vec<u64>)> = Vec::new();
    let mut deliveries: Vec<Vec<Vec<u64>>> = Vec::new();
    // segment start offset -> tags
    let mut seg_tags: Vec<(usize, Vec<u64>)> = Vec::new();
    let mut sent = 0usize;
    let mut consumed = 0usize;
    let mut start = 0usize;
    let mut max_fd = 64;
    let nseg = c.cuts.len() + 1;
    let mut read_until_dry = |conn: &mut HttpConnection<UnixStream>, sent: usize, consumed: &mut usize, seg_tags: &Vec<(usize, Vec<u64>)>, arrivals: &mut Vec<(usize, Vec<u64>)>, deliveries: &mut Vec<Vec<Vec<u64>>>, ctx: &mut Ctx| -> Result<(), (String, String)> {
        loop {
            let before_unread = unread(&watch);
            if before_unread == 0 {
                return Ok(());
            }
            let res = guarded(|| conn.try_read());
            let after_unread = unread(&watch);
            let took = before_unread - after_unread;
            let from = *consumed;
            *consumed += took;
            debug_assert!(*consumed <= sent);
            match res {
                Err(p) => return Err(("fault".into(), format!("try_read panicked: {}", p))),
                Ok(Ok(())) => {}
                Ok(Err(ConnectionError::StreamReadError(_))) => return Ok(()),
                Ok(Err(e)) => return Err(("fault".into(), format!("try_read returned {:?} on error-free input", e))),
            }
            // descriptors of a segment arrive with the read that consumes the segment's first byte
            let mut tags = Vec::new();
            for (off, t) in seg_tags.iter() {
                if *off >= from && *off < *consumed {
                    tags.extend_from_slice(t);
                }
            }
            let mut got = Vec::new();
            let mut n = 0;
            while let Some(req) = conn.pop_parsed_request() {
                got.push(req.files.iter().map(|f| read_tag(f.as_raw_fd())).collect::<Vec<u64>>());
                n += 1;
            }
            ctx.rep.count(match n {
                0 => "reads_completing_no_request",
                1 => "reads_completing_one_request",
                _ => "reads_completing_several_requests",
            });
            arrivals.push((*consumed, tags));
            deliveries.push(got);
        }
    };
    for si in 0..nseg {
        let end = if si < c.cuts.len() { c.cuts[si] } else { c.stream.len() };
        if end <= start {
            continue;
        }
        let nf = c.fds_per_segment.get(si).copied().unwrap_or(0).min(253);
        let mut tags = Vec::new();
        let mut fds = Vec::new();
        for _ in 0..nf {
            let fd = new_tagged_fd(*next_tag);
            if fd < 0 {
                break;
            }
            max_fd = max_fd.max(fd + 8 + nf as i32);
            tags.push(*next_tag);
            fds.push(fd);
            *next_tag += 1;
        }
        let chunk = &c.stream[start..end];
        let n = if fds.is_empty() { std::io::Write::write(&mut &b, chunk).unwrap_or(0) } else { b.send_with_fds(&[chunk], &fds).unwrap_or(0) };
        for fd in &fds {
            // SAFETY: closing the sender's copies; the receiver gets its own duplicates.
            unsafe { libc::close(*fd) };
        }
        if n != chunk.len() {
            return Err(("harness".into(), "short send on the socketpair".into()));
        }
        if !tags.is_empty() {
            seg_tags.push((start, tags));
            ctx.rep.count("sendmsg_with_descriptors");
        }
        sent += n;
        start = end;
        // sometimes let several segments queue up before the connection reads
        if si % 3 != 2 {
            read_until_dry(&mut conn, sent, &mut consumed, &seg_tags, &mut arrivals, &mut deliveries, ctx)?;
        }
    }
    read_until_dry(&mut conn, sent, &mut consumed, &seg_tags, &mut arrivals, &mut deliveries, ctx)?;
    drop(b);
    let _ = guarded(|| conn.try_read()); // EOF
    if let Some(p) = ownership_oracle(&c.stream, &arrivals, &deliveries) {
        return Err(p);
    }
    drop(watch);
    let _ = max_fd;
    if let Some(p) = sentinel_drop(limit, move || drop(conn)) {
        return Err(p);
    }
    Ok(())
}

fn gen_case(rng: &mut Rng, real_socket: bool, big: bool) -> Case {
    let write_mode = if !real_socket && rng.chance(1, 3) { 1 } else { 0 };
    let opts = GenOpts { body_lens: vec![0, 0, 1, 7, 300, 1100, 2500], allow_expect: write_mode > 0, ..Default::default() };
    let k = rng.range(1, 4);
    let (stream, layouts) = gen::valid_stream(rng, k, &opts);
    let cuts = match rng.below(4) {
        0 => Vec::new(),
        1 => {
            // cut exactly at request boundaries
            layouts.iter().take(layouts.len() - 1).map(|l| l.end).filter(|e| *e > 0 && *e < stream.len()).collect()
        }
        _ => gen::random_cuts(rng, stream.len(), 6),
    };
    let nseg = cuts.len() + 1;
    let mut fds_per_segment = vec![0usize; nseg];
    let budget = if big { 253 } else { 6 };
    for _ in 0..rng.range(0, 4) {
        let s = rng.below(nseg);
        fds_per_segment[s] += if big && rng.chance(1, 3) { rng.range(100, budget) } else { rng.range(1, 4) };
        fds_per_segment[s] = fds_per_segment[s].min(253);
    }
    let fds_at_eof = if !real_socket && rng.chance(1, 6) { rng.range(1, 3) } else { 0 };
    let pop_every = if real_socket { 0 } else { *rng.pick(&[0usize, 0, 2, 3, 1000]) };
    Case { stream, cuts, fds_per_segment, fds_at_eof, real_socket, pop_every, write_mode }
}

pub fn run(ctx: &mut Ctx) {
    let n = ctx.budget(20_000, 1_000_000) / ctx.nshards;
    let mut rng = ctx.rng.fork(0xC12);
    let mut bad = 0;
    // ---- the per-message maximum and its neighbours: 251 / 252 / 253 descriptors with ONE read,
    // in a read that completes a request and in one that does not, both engines
    for (k, count) in [253usize, 252, 251, 253].iter().enumerate() {
        for real in [false, true] {
            let mut c = gen_case(&mut rng, real, false);
            let nseg = c.cuts.len() + 1;
            c.fds_per_segment = vec![0; nseg];
            let seg = if k % 2 == 0 { 0 } else { nseg - 1 };
            c.fds_per_segment[seg] = *count;
            if k == 3 && nseg > 1 {
                c.fds_per_segment[nseg - 1 - seg] = 2;
            }
            c.fds_at_eof = 0;
            ctx.rep.count("cases_with_the_maximum_number_of_descriptors_in_one_read");
            if exec(ctx, &c) {
                bad += 1;
            }
        }
    }
    for i in 0..n {
        let real = i % 3 == 0;
        let big = i % 97 == 0;
        let c = gen_case(&mut rng, real, big);
        ctx.rep.count(if real { "cases_socketpair" } else { "cases_scripted" });
        if ctx.rep.samples.len() < 4 && i % 100 == 9 {
            ctx.rep.sample(case_json(&c));
        }
        if exec(ctx, &c) {
            bad += 1;
            if bad > 20 {
                return;
            }
        }
    }
}

pub fn replay(ctx: &mut Ctx, case: &J) {
    ctx.only_case = None;
    let c = Case {
        stream: case.ghex("stream_hex"),
        cuts: case.garr("cuts").iter().filter_map(|x| x.as_u64()).map(|x| x as usize).collect(),
        fds_per_segment: case.garr("fds_per_segment").iter().filter_map(|x| x.as_u64()).map(|x| x as usize).collect(),
        fds_at_eof: case.gu("fds_at_eof") as usize,
        real_socket: case.gs("engine") == "socketpair",
        pop_every: case.gu("pop_every") as usize,
        write_mode: case.gu("write_mode") as usize,
    };
    println!("stream: {}\ncuts {:?} fds per segment {:?} at eof {}", show(&c.stream), c.cuts, c.fds_per_segment, c.fds_at_eof);
    exec(ctx, &c);
}
