//! C03 — no input makes any parsing entry point panic, hang or block.
//!
//! Monitors: catch_unwind around every call (panic), the logical step budget armed around every
//! try_read (endless loop), call counters of the scripted stream (more than one receive per
//! try_read / more than one write per try_write = could block), shard exit status (abort), and —
//! in the asan / miri flavours of the same workload — the sanitizer itself.
use std::io::Write as _;
use std::os::unix::net::UnixStream;

use micro_http::{Body, ConnectionError, Encoding, Headers, HttpConnection, MediaType, Method, Request, Response, StatusCode, Version};
use vmm_sys_util::sock_ctrl_msg::ScmSocket;

use crate::conn::{guarded, Runner, RR};
use crate::gen::{self, GenOpts};
use crate::stream::{ReadEv, WriteEv};
use crate::util::{show, Fp, Rng, J};
use crate::Ctx;

/// Hostile byte strings: random, grammar-derived, mutated.
pub fn hostile_bytes(rng: &mut Rng, max_len: usize) -> Vec<u8> {
    let kind = rng.below(10);
    let mut v: Vec<u8> = match kind {
        0 => {
            let n = rng.below(max_len.min(300) + 1);
            rng.bytes(n)
        }
        1 => {
            // only structural bytes
            let n = rng.below(max_len.min(200) + 1);
            (0..n).map(|_| *rng.pick(&[b'\r', b'\n', b' ', b':', b'G', b'E', b'T', b'/', 0u8, 0xFF])).collect()
        }
        2 => {
            let n = rng.below(max_len + 1);
            rng.bytes(n)
        }
        _ => {
            let opts = GenOpts { body_lens: vec![0, 0, 1, 5, 100, 1023, 1024, 1025, 3000], ..Default::default() };
            let k = rng.range(1, 4);
            let mut s = Vec::new();
            for j in 0..k {
                let mut r = gen::valid_request(rng, j, &opts);
                if rng.chance(1, 3) {
                    let c = *rng.pick(&gen::CORRUPTIONS);
                    gen::corrupt(&mut r, c, rng);
                }
                s.extend_from_slice(&gen::render_raw(&r));
            }
            s
        }
    };
    // mutations
    let nm = if kind >= 3 { rng.below(5) } else { rng.below(2) };
    for _ in 0..nm {
        if v.is_empty() {
            break;
        }
        let p = rng.below(v.len());
        match rng.below(8) {
            0 => v[p] ^= 1 << rng.below(8),
            1 => v.insert(p, *rng.pick(&[0u8, b'\r', b'\n', 0x80, 0xC3, 0xFF, b' ', b':'])),
            2 => {
                v.remove(p);
            }
            3 => {
                // duplicate a slice
                let q = rng.range(p, (p + 200).min(v.len()));
                let dup = v[p..q].to_vec();
                v.splice(p..p, dup);
            }
            4 => v.truncate(p),
            5 => {
                // long run without CRLF
                let n = rng.range(1000, 1100);
                // ASCII, raw high bytes, or 2/3/4-byte UTF-8 characters in either phase: error texts built
                // from an over-long line must cope with any of them at any cut
                let unit: &[u8] = match rng.below(6) {
                    0 | 1 => b"xwvut",
                    2 => &[0x80, 0xFF, 0xBF, 0xC3],
                    3 => "\u{e9}".as_bytes(),
                    4 => "\u{20ac}".as_bytes(),
                    _ => "\u{1F600}".as_bytes(),
                };
                let mut run: Vec<u8> = Vec::with_capacity(n + 4);
                if rng.chance(1, 2) {
                    run.push(b'h');
                }
                while run.len() < n {
                    run.extend_from_slice(unit);
                }
                v.splice(p..p, run);
            }
            6 => {
                // huge / odd content-length
                // (also: the words a number parser may know -- nan, inf, exponents, signs, hex -- wherever a header
                // value carries a number or a weight, and several acceptable values in one list)
                let cl = *rng.pick(&[
                    "Content-Length: 4294967295\r\n",
                    "Content-Length: 4294967296\r\n",
                    "Content-Length: -1\r\n",
                    "Content-Length: 1\r\n",
                    "Content-Length: 1023\r\n",
                    "Content-Length: nan\r\n",
                    "Content-Length: 1e3\r\n",
                    "Content-Length: +7\r\n",
                    "Content-Length: 0x10\r\n",
                    "Content-Length: 18446744073709551616\r\n",
                    "Accept: application/json;q=nan, text/plain\r\n",
                    "Accept: text/plain;q=NaN, application/json;q=-nan, text/plain;q=inf\r\n",
                    "Accept: text/plain;q=1e400, application/json;q=-0\r\n",
                    "Accept: application/json, text/plain\r\n",
                    "Accept-Encoding: gzip;q=nan, identity;q=inf, *;q=-0\r\n",
                    "Accept-Encoding: identity;q=0.000, *;q=1e-999\r\n",
                    "Expect: 100-continue;q=nan\r\n",
                    "Transfer-Encoding: chunked;q=nan, identity\r\n",
                    // characters whose lower/upper-case form has another UTF-8 length, in front of an entry that is refused
                    "Accept-Encoding: \u{130}, identity;q=0\r\n",
                    "Accept-Encoding: \u{212a}\u{212a}\u{212a},*;q=0\r\n",
                    "Accept-Encoding: \u{1e9e}\u{23a}\u{23e}, gzip, identity;q=0\r\n",
                    "Accept: \u{130}text/plain, \u{212b}application/json\r\n",
                    "Expect: \u{130}100-continue\r\n",
                    "Content-Length: \u{ff11}\u{ff12}\r\n",
                    "\u{130}Content-Length\u{212a}: 3\r\n",
                    "Connection: close\r\n",
                ]);
                // at the start of a line if there is one, else anywhere
                let starts: Vec<usize> = v.windows(2).enumerate().filter(|(_, w)| *w == b"\r\n").map(|(i, _)| i + 2).collect();
                let at = if !starts.is_empty() && rng.chance(4, 5) { *rng.pick(&starts) } else { p };
                let at = at.min(v.len());
                v.splice(at..at, cl.bytes());
            }
            _ => v[p] = rng.next() as u8,
        }
    }
    v.truncate(max_len);
    v
}

fn pure_case_json(entry: &str, input: &[u8], extra: u64) -> J {
    J::obj(vec![("family", J::s("pure")), ("entry", J::s(entry)), ("input_hex", J::hexs(input)), ("input_show", J::s(&show(input))), ("arg", J::u(extra))])
}

/// Calls every pure parsing entry point on `b`.
fn pure_entry_points(ctx: &mut Ctx, b: &[u8], maxes: &[Option<usize>]) -> bool {
    if !ctx.begin() {
        return false;
    }
    ctx.rep.evaluations += 1;
    ctx.rep.distinct(Fp::new().bytes(b).u(7).0);
    macro_rules! call {
        ($name:expr, $arg:expr, $e:expr) => {{
            ctx.rep.count(concat!("calls_", $name));
            match guarded(|| $e) {
                Ok(v) => Some(v),
                Err(p) => {
                    ctx.rep.violation(&format!("C03:panic:{}", $name), format!("{} panicked on {:?}: {}", $name, show(b), p), pure_case_json($name, b, $arg));
                    None
                }
            }
        }};
    }
    for m in maxes {
        let arg = m.map(|x| x as u64 + 1).unwrap_or(0);
        match call!("Request::try_from", arg, Request::try_from(b, *m).map(|r| (r.uri().get_abs_path().len(), r.method(), r.http_version(), r.headers.content_length()))) {
            None => return true,
            Some(Ok(_)) => ctx.rep.count("oneshot_ok"),
            Some(Err(_)) => ctx.rep.count("oneshot_err"),
        }
    }
    if call!("Headers::try_from", 0, Headers::try_from(b).is_ok()).is_none() {
        return true;
    }
    let mut h = Headers::default();
    for line in b.split(|c| *c == b'\n').take(40) {
        if call!("Headers::parse_header_line", 0, h.parse_header_line(line).is_ok()).is_none() {
            return true;
        }
    }
    let small = &b[..b.len().min(64)];
    if call!("MediaType::try_from", 0, MediaType::try_from(small).is_ok()).is_none()
        || call!("Encoding::try_from", 0, Encoding::try_from(small).is_ok()).is_none()
        || call!("Method::try_from", 0, Method::try_from(small).is_ok()).is_none()
        || call!("Version::try_from", 0, Version::try_from(small).is_ok()).is_none()
    {
        return true;
    }
    // URI path extraction through a request whose URI is (a sanitised form of) the input
    let mut uri: Vec<u8> = b.iter().take(300).filter(|c| **c != b' ' && **c != b'\r' && **c != b'\n').cloned().collect();
    if uri.is_empty() {
        uri.push(b'/');
    }
    let mut req = b"GET ".to_vec();
    if b.len() % 3 == 0 {
        req.extend_from_slice(b"http://");
    }
    req.extend_from_slice(&uri);
    req.extend_from_slice(b" HTTP/1.1\r\n\r\n");
    if call!("Uri::get_abs_path", 0, Request::try_from(&req, None).map(|r| r.uri().get_abs_path().len())).is_none() {
        return true;
    }
    false
}

// ------------------------------------------------------------------ connection under hostile schedules

#[derive(Clone, Debug)]
pub enum Op {
    /// offer this many bytes of the input in one read event
    Read(usize),
    ReadErr(i32),
    Eof,
    Write(WriteEv),
    Enqueue(usize),
    Pop,
}

fn op_json(o: &Op) -> J {
    J::s(&match o {
        Op::Read(n) => format!("read{}", n),
        Op::ReadErr(e) => format!("readerr{}", e),
        Op::Eof => "eof".into(),
        Op::Write(WriteEv::Accept(k)) => format!("write-accept{}", k),
        Op::Write(WriteEv::Interrupted) => "write-eintr".into(),
        Op::Write(WriteEv::WouldBlock) => "write-eagain".into(),
        Op::Write(WriteEv::Err(e)) => format!("write-errno{}", e),
        Op::Write(WriteEv::Zero) => "write-zero".into(),
        Op::Write(_) => "write-accept1".into(),
        Op::Enqueue(n) => format!("enqueue{}", n),
        Op::Pop => "pop".into(),
    })
}

fn parse_op(s: &str) -> Option<Op> {
    if let Some(n) = s.strip_prefix("readerr") {
        return n.parse().ok().map(Op::ReadErr);
    }
    if let Some(n) = s.strip_prefix("read") {
        return n.parse().ok().map(Op::Read);
    }
    if s == "eof" {
        return Some(Op::Eof);
    }
    if s == "pop" {
        return Some(Op::Pop);
    }
    if let Some(n) = s.strip_prefix("enqueue") {
        return n.parse().ok().map(Op::Enqueue);
    }
    if let Some(n) = s.strip_prefix("write-accept") {
        return n.parse().ok().map(|k| Op::Write(WriteEv::Accept(k)));
    }
    if let Some(n) = s.strip_prefix("write-errno") {
        return n.parse().ok().map(|e| Op::Write(WriteEv::Err(e)));
    }
    match s {
        "write-eintr" => Some(Op::Write(WriteEv::Interrupted)),
        "write-eagain" => Some(Op::Write(WriteEv::WouldBlock)),
        "write-zero" => Some(Op::Write(WriteEv::Zero)),
        _ => None,
    }
}

fn conn_case_json(input: &[u8], limit: usize, ops: &[Op]) -> J {
    J::obj(vec![
        ("family", J::s("connection")),
        ("input_hex", J::hexs(input)),
        ("input_show", J::s(&show(input))),
        ("limit", J::u(limit as u64)),
        ("ops", J::Arr(ops.iter().map(op_json).collect())),
    ])
}

pub fn random_ops(rng: &mut Rng, input_len: usize, n: usize) -> Vec<Op> {
    let mut ops = Vec::with_capacity(n);
    let mut left = input_len;
    let style = rng.below(6);
    let avg = (2 * input_len / n.max(1)).max(2);
    for _ in 0..n {
        let o = match rng.below(20) {
            0 => Op::ReadErr(*rng.pick(&[libc::EAGAIN, libc::EINTR, libc::ECONNRESET, libc::EBADF, libc::ENOMEM])),
            1 => {
                if rng.chance(1, 4) {
                    Op::Eof
                } else {
                    Op::Pop
                }
            }
            2 | 3 => Op::Write(match rng.below(6) {
                0 => WriteEv::Interrupted,
                1 => WriteEv::WouldBlock,
                2 => WriteEv::Err(libc::EPIPE),
                3 => WriteEv::Zero,
                4 => WriteEv::Accept(rng.range(1, 50)),
                _ => WriteEv::Accept(usize::MAX),
            }),
            4 => Op::Enqueue(*rng.pick(&[0usize, 10, 2000])),
            _ => {
                let sz = match style {
                    0 => rng.range(1, 8),
                    1 => *rng.pick(&[1usize, 1023, 1024, 1025, 2048, 100_000]),
                    2 => rng.range(1, 1500),
                    3 => rng.range(200, 1100),
                    _ => rng.range(1, avg),
                };
                let sz = sz.min(left.max(1));
                left = left.saturating_sub(sz);
                Op::Read(sz)
            }
        };
        ops.push(o);
    }
    ops
}

/// Drives a real connection with `ops` over `input`, continuing after every error.
pub fn conn_case(ctx: &mut Ctx, input: &[u8], limit: usize, ops: &[Op]) -> bool {
    if !ctx.begin() {
        return false;
    }
    ctx.rep.evaluations += 1;
    let mut f = Fp::new().bytes(input).u(limit as u64);
    for o in ops {
        f = f.s(op_json(o).as_str().unwrap_or(""));
    }
    let mut r = Runner::new(Some(limit));
    let mut pos = 0usize;
    let mut after_error = false;
    let mut reads_after_error = 0u64;
    let fail = |ctx: &mut Ctx, kind: &str, d: String| {
        ctx.rep.violation(&format!("C03:{}", kind), d, conn_case_json(input, limit, ops));
        true
    };
    for (i, o) in ops.iter().enumerate() {
        match o {
            Op::Read(_) | Op::ReadErr(_) | Op::Eof => {
                r.script.clear_reads();
                match o {
                    Op::Read(n) => {
                        let end = (pos + n).min(input.len());
                        if end == pos {
                            r.script.push_read(ReadEv::WouldBlock);
                        } else {
                            r.script.push_read(ReadEv::Data(input[pos..end].to_vec(), Vec::new()));
                        }
                    }
                    Op::ReadErr(e) => r.script.push_read(ReadEv::Err(*e)),
                    _ => r.script.push_read(ReadEv::Eof(Vec::new())),
                }
                let before = r.script.pending_read_bytes();
                let so = r.read();
                pos += before - r.script.pending_read_bytes();
                ctx.rep.count("try_read_calls");
                ctx.rep.max("max_ticks_in_one_try_read", so.ticks);
                if after_error {
                    reads_after_error += 1;
                }
                match &so.res {
                    RR::Panic(p) => {
                        let kind = if p.contains("step budget") { "endless-loop" } else { "panic:try_read" };
                        return fail(ctx, kind, format!("op #{} {:?}: try_read: {}", i, o, p));
                    }
                    RR::Unexpected(u) => return fail(ctx, "unexpected-variant", format!("op #{} {:?}: try_read returned {}", i, o, u)),
                    RR::Parse(e) => {
                        after_error = true;
                        ctx.rep.count("parse_errors_seen");
                        if let crate::model::EK::Internal(k) = e {
                            ctx.rep.count(&format!("internal_error_kind_{}", k));
                        }
                    }
                    RR::Closed => {
                        after_error = true;
                        ctx.rep.count("connection_closed_seen");
                    }
                    RR::StreamRead(_) => {
                        after_error = true;
                        ctx.rep.count("stream_read_errors_seen");
                    }
                    RR::Ok => {}
                }
                if so.recv_calls > 1 {
                    return fail(ctx, "more-than-one-receive", format!("op #{} {:?}: {} receive calls in one try_read (a second one can block)", i, o, so.recv_calls));
                }
                ctx.rep.add("requests_delivered", so.delivered.len() as u64);
            }
            Op::Write(ev) => {
                if r.conn.pending_write() {
                    r.script.push_write(*ev);
                }
                let wb = r.script.write_calls();
                match guarded(|| r.conn.try_write()) {
                    Err(p) => return fail(ctx, "panic:try_write", format!("op #{} {:?}: try_write: {}", i, o, p)),
                    Ok(Err(ConnectionError::StreamReadError(_))) | Ok(Err(ConnectionError::ParseError(_))) => {
                        return fail(ctx, "unexpected-variant", format!("op #{}: try_write returned a read-side error", i));
                    }
                    Ok(_) => {}
                }
                ctx.rep.count("try_write_calls");
                if r.script.write_calls() - wb > 1 {
                    return fail(ctx, "more-than-one-write", format!("op #{} {:?}: {} stream writes in one try_write", i, o, r.script.write_calls() - wb));
                }
            }
            Op::Enqueue(n) => {
                let mut resp = Response::new(Version::Http11, StatusCode::OK);
                if *n > 0 {
                    resp.set_body(Body::new(vec![b'r'; *n]));
                }
                if let Err(p) = guarded(|| r.conn.enqueue_response(resp)) {
                    return fail(ctx, "panic:enqueue_response", p);
                }
            }
            Op::Pop => {
                if let Err(p) = guarded(|| r.conn.pop_parsed_request().is_some()) {
                    return fail(ctx, "panic:pop_parsed_request", p);
                }
            }
        }
    }
    ctx.rep.add("try_read_calls_after_an_error", reads_after_error);
    {
        let st = r.script.0.borrow();
        if st.plain_read_calls > 0 || st.iov_count_bad > 0 {
            drop(st);
            return fail(ctx, "unexpected-stream-use", "the connection used Read::read or a multi-element iovec".into());
        }
        if st.iov_max > 0 {
            ctx.rep.max("max_iov_len_requested", st.iov_max as u64);
        }
    }
    if reads_after_error > 0 {
        ctx.rep.distinct(f.0);
    }
    false
}

// ------------------------------------------------------------------ real socketpair (recvmsg / SCM_RIGHTS path)

fn socketpair_case(ctx: &mut Ctx, input: &[u8], rng: &mut Rng) -> bool {
    if !ctx.begin() {
        return false;
    }
    ctx.rep.evaluations += 1;
    let (a, mut b) = match UnixStream::pair() {
        Ok(p) => p,
        Err(_) => return false,
    };
    let _ = a.set_nonblocking(true);
    let _ = b.set_nonblocking(true);
    let mut conn = HttpConnection::new(a);
    let mut pos = 0usize;
    let case = J::obj(vec![("family", J::s("socketpair")), ("input_hex", J::hexs(input)), ("input_show", J::s(&show(input)))]);
    let mut steps = 0;
    while steps < 400 {
        steps += 1;
        if pos < input.len() {
            let n = (*rng.pick(&[1usize, 7, 100, 1023, 1024, 1025, 4000])).min(input.len() - pos);
            let chunk = &input[pos..pos + n];
            let sent = if rng.chance(1, 6) {
                // pass descriptors along with the bytes
                let fds: Vec<i32> = (0..rng.range(1, 4)).filter_map(|_| {
                    // SAFETY: dup of stdin-agnostic /dev/null descriptor created here and closed below
                    let fd = unsafe { libc::open(b"/dev/null\0".as_ptr() as *const libc::c_char, libc::O_RDONLY) };
                    if fd >= 0 { Some(fd) } else { None }
                }).collect();
                let r = b.send_with_fds(&[chunk], &fds).unwrap_or(0);
                for fd in fds {
                    // SAFETY: closing our copies; the receiver owns its own duplicates
                    unsafe { libc::close(fd) };
                }
                ctx.rep.count("socketpair_sends_with_descriptors");
                r
            } else {
                b.write(chunk).unwrap_or(0)
            };
            pos += sent;
        } else if rng.chance(1, 3) {
            let _ = b.shutdown(std::net::Shutdown::Write);
        }
        // read until the socket has nothing more
        for _ in 0..8 {
            micro_http::verif::arm(crate::conn::TRY_READ_BUDGET);
            let res = guarded(|| conn.try_read());
            micro_http::verif::disarm();
            ctx.rep.count("socketpair_try_read_calls");
            match res {
                Err(p) => {
                    ctx.rep.violation("C03:panic:try_read(socket)", format!("try_read over a real socket: {}", p), case);
                    return true;
                }
                Ok(Err(ConnectionError::StreamReadError(_))) => break,
                Ok(Err(ConnectionError::ConnectionClosed)) => {
                    steps = 1000;
                    break;
                }
                Ok(_) => {}
            }
            while let Some(r) = conn.pop_parsed_request() {
                ctx.rep.add("socketpair_descriptors_delivered", r.files.len() as u64);
                ctx.rep.count("requests_delivered");
            }
        }
        if conn.pending_write() {
            let _ = guarded(|| conn.try_write());
            let mut sink = [0u8; 4096];
            let _ = std::io::Read::read(&mut b, &mut sink);
        }
        if pos >= input.len() && steps > 20 {
            break;
        }
    }
    false
}

/// Reduced workload for the Miri flavour (about 1 s per case there): what Miri can see and the
/// native run cannot is a wrong pointer / length handed to the receive call, so the cases aim
/// at reads with a large carried-over prefix and a stream that fills exactly what is asked for.
fn run_miri(ctx: &mut Ctx) {
    let n_conn = if ctx.quick() { 22 } else { 420 };
    let n_pure = if ctx.quick() { 3 } else { 40 };
    let mut rng = ctx.rng.fork(0xC03);
    for _ in 0..n_pure {
        let b = hostile_bytes(&mut rng, 160);
        pure_entry_points(ctx, &b, &[None]);
    }
    for i in 0..n_conn {
        // a short complete request, then a long line without CRLF (carried over), then more
        let mut input = Vec::new();
        if i % 3 != 2 {
            input.extend_from_slice(b"GET /m HTTP/1.1\r\nX: y\r\n\r\n");
        }
        if i % 2 == 0 {
            input.extend_from_slice(b"PUT /");
            for k in 0..rng.range(200, 1010) {
                input.push(b'a' + (k % 26) as u8);
            }
            input.extend_from_slice(b" HTTP/1.1\r\nContent-Length: 1500\r\n\r\n");
            input.extend(std::iter::repeat(b'b').take(1500));
        } else {
            input.extend(hostile_bytes(&mut rng, 1800));
        }
        let mut ops = Vec::new();
        for _ in 0..rng.range(3, 7) {
            ops.push(match rng.below(8) {
                0 => Op::ReadErr(libc::EAGAIN),
                1 => Op::Read(1),
                2 => Op::Read(rng.range(2, 900)),
                3 => Op::Write(WriteEv::Accept(usize::MAX)),
                _ => Op::Read(100_000),
            });
        }
        if i % 7 == 0 {
            ops.push(Op::Eof);
            ops.push(Op::Read(100_000));
        }
        if ctx.rep.samples.len() < 2 {
            ctx.rep.sample(conn_case_json(&input[..input.len().min(120)], 51200, &ops));
        }
        conn_case(ctx, &input, 51200, &ops);
    }
}

pub fn run(ctx: &mut Ctx) {
    if ctx.flavor == "miri" {
        return run_miri(ctx);
    }
    // budgets are per shard here: the families are random, not enumerated
    let n_pure = ctx.budget(12_000, 400_000);
    let n_conn = ctx.budget(8_000, 300_000);
    let n_sock = ctx.budget(300, 6_000);
    let mut rng = ctx.rng.fork(0xC03);
    let max_len = 61_440;
    // long runs of one repeated element in front of (or instead of) a request: whatever is done per
    // element (a recursion step, a shift, an allocation) must stay harmless 30000 times over
    let units: [&[u8]; 8] = [b"\r\n", b"\n", b"\r", b" ", b"\r\n\r\n", b":\r\n", b"GET ", b"/"];
    for (ui, unit) in units.iter().enumerate() {
        for reps in [300usize, 3_000, 30_000] {
            if (ui as u64 + reps as u64 / 300) % ctx.nshards != ctx.shard {
                continue;
            }
            let mut b = Vec::with_capacity(unit.len() * reps + 64);
            for _ in 0..reps {
                if b.len() + unit.len() > max_len - 40 {
                    break;
                }
                b.extend_from_slice(unit);
            }
            ctx.rep.count("long_runs_of_one_element");
            pure_entry_points(ctx, &b, &[None]);
            b.extend_from_slice(b"GET /x HTTP/1.1\r\nA: b\r\n\r\n");
            pure_entry_points(ctx, &b, &[None, Some(b.len() + 1)]);
            let ops = random_ops(&mut rng, b.len(), 80);
            conn_case(ctx, &b, 51200, &ops);
        }
    }
    for i in 0..n_pure {
        let b = hostile_bytes(&mut rng, if i % 50 == 0 { max_len } else { 4096.min(max_len) });
        let len = b.len();
        let maxes = [None, Some(len), Some(len + 1), Some(0)];
        if ctx.rep.samples.len() < 2 {
            ctx.rep.sample(J::obj(vec![("family", J::s("pure")), ("input", J::s(&show(&b)))]));
        }
        if pure_entry_points(ctx, &b, &maxes[..if i % 4 == 0 { 4 } else { 1 }]) && ctx.rep.violations_total > 30 {
            break;
        }
    }
    for i in 0..n_conn {
        let input = hostile_bytes(&mut rng, if i % 40 == 0 { max_len } else { 6000.min(max_len) });
        let limit = *rng.pick(&[51200usize, 51200, 1024, 0, u32::MAX as usize]);
        let n_ops = rng.range(4, 90);
        let ops = random_ops(&mut rng, input.len(), n_ops);
        if ctx.rep.samples.len() < 4 {
            ctx.rep.sample(conn_case_json(&input[..input.len().min(200)], limit, &ops[..ops.len().min(12)]));
        }
        if conn_case(ctx, &input, limit, &ops) && ctx.rep.violations_total > 30 {
            break;
        }
    }
    for _ in 0..n_sock {
        let input = hostile_bytes(&mut rng, 8000);
        if socketpair_case(ctx, &input, &mut rng) && ctx.rep.violations_total > 30 {
            break;
        }
    }
}

pub fn replay(ctx: &mut Ctx, case: &J) {
    ctx.only_case = None;
    match case.gs("family").as_str() {
        "pure" => {
            let b = case.ghex("input_hex");
            let len = b.len();
            println!("input: {}", show(&b));
            pure_entry_points(ctx, &b, &[None, Some(len), Some(len + 1), Some(0)]);
        }
        "connection" => {
            let b = case.ghex("input_hex");
            let ops: Vec<Op> = case.garr("ops").iter().filter_map(|o| o.as_str().and_then(parse_op)).collect();
            println!("input: {}\nops: {:?}", show(&b), ops);
            conn_case(ctx, &b, case.gu("limit") as usize, &ops);
        }
        _ => {
            let b = case.ghex("input_hex");
            let mut rng = Rng::new(1);
            socketpair_case(ctx, &b, &mut rng);
        }
    }
}
