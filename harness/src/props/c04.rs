//! C04 — payload and line-length limits are enforced exactly and before buffering.
//!
//! Monitors (connection level): (a) boundary oracle at the read that completes the header
//! block: SizeLimitExceeded(L, n) from that very try_read iff n > L, with no body byte supplied;
//! delivered bodies have the declared length <= L. (b) lines of length 1000..1100 starting at
//! every window offset: rejected iff longer than 1024 including CRLF, at the read that brings
//! the 1024th byte; accepted lines verbatim (M1 comparison). Server level: simulator.
use crate::conn::{run_stream, Gap, Outcome, Runner, RR};
use crate::gen;
use crate::model::{m1, M1Event, EK};
use crate::props::c01::check_against_m1;
use crate::stream::ReadEv;
use crate::util::{show, Fp, Rng, J};
use crate::Ctx;

const U32MAX: usize = u32::MAX as usize;

fn limits(thorough: bool) -> Vec<usize> {
    let mut v: Vec<usize> = (0..=(if thorough { 64 } else { 16 })).collect();
    v.extend_from_slice(&[1023, 1024, 1025, 51199, 51200, 51201, U32MAX]);
    // limits that do not fit 32 bits: every 32-bit declaration is within them
    v.extend_from_slice(&[U32MAX + 1, U32MAX + 5, 5 * (1usize << 30), usize::MAX]);
    v
}

fn lengths_around(l: usize) -> Vec<usize> {
    let mut v = vec![0usize, 1, 5, 51201, l.saturating_sub(1).min(U32MAX), l.min(U32MAX), l.saturating_add(1).min(U32MAX), l.saturating_mul(2).saturating_add(1).min(U32MAX), U32MAX, U32MAX - 1];
    // declared lengths that do not fit 32 bits: never acceptable, and never to be reported as another number
    v.extend_from_slice(&[U32MAX + 1, U32MAX + 2, (U32MAX + 1).saturating_add(l.min(U32MAX)), 100_000_000_000]);
    v.sort_unstable();
    v.dedup();
    v
}

fn head(n: usize, rng: &mut Rng, variant: usize) -> Vec<u8> {
    let mut h = Vec::new();
    // all three methods: the connection applies the limit to whatever declares a body (GET included)
    h.extend_from_slice(gen::METHODS[if variant % 7 == 3 { 0 } else { 1 + variant % 2 }]);
    h.extend_from_slice(b" /limit HTTP/1.");
    h.push(b'0' + (variant % 2) as u8);
    h.extend_from_slice(b"\r\n");
    let mut lines: Vec<Vec<u8>> = Vec::new();
    for _ in 0..variant % 3 {
        lines.push(gen::BENIGN_HEADERS[rng.below(gen::BENIGN_HEADERS.len())].as_bytes().to_vec());
    }
    let pos = rng.below(lines.len() + 1);
    lines.insert(pos, gen::content_length_line(n, rng));
    if variant % 5 == 0 {
        lines.push(b"Expect: 100-continue".to_vec());
    }
    for l in lines {
        h.extend_from_slice(&l);
        h.extend_from_slice(b"\r\n");
    }
    h.extend_from_slice(b"\r\n");
    h
}

fn case_a_json(l: usize, n: usize, head: &[u8], cuts: &[usize], extra: usize) -> J {
    J::obj(vec![
        ("family", J::s("payload")),
        ("limit", J::u(l as u64)),
        ("declared", J::u(n as u64)),
        ("head_hex", J::hexs(head)),
        ("head_show", J::s(&show(head))),
        ("cuts", J::Arr(cuts.iter().map(|c| J::u(*c as u64)).collect())),
        ("body_bytes_in_last_read", J::u(extra as u64)),
    ])
}

/// Family (a): `extra` body bytes share the read that completes the header block.
fn exec_payload(ctx: &mut Ctx, l: usize, n: usize, head: &[u8], cuts: &[usize], extra: usize) -> bool {
    exec_payload_ex(ctx, l, n, head, cuts, extra, 0)
}

/// `after_errors` rejected requests are fed to the same connection first: the configured limit must persist.
fn exec_payload_ex(ctx: &mut Ctx, l: usize, n: usize, head: &[u8], cuts: &[usize], extra: usize, after_errors: usize) -> bool {
    if !ctx.begin() {
        return false;
    }
    ctx.rep.evaluations += 1;
    let mut f = Fp::new().u(l as u64).u(n as u64).bytes(head).u(extra as u64).u(after_errors as u64);
    for c in cuts {
        f = f.u(*c as u64);
    }
    ctx.rep.distinct(f.0);
    let extra = extra.min(n);
    let body: Vec<u8> = (0..n.min(70_000)).map(|i| (i % 251) as u8).collect();
    let mut r = Runner::new(Some(l));
    let fail = |ctx: &mut Ctx, kind: &str, d: String| {
        let mut c = case_a_json(l, n, head, cuts, extra);
        if let J::Obj(kv) = &mut c {
            kv.push(("after_errors".to_string(), J::u(after_errors as u64)));
        }
        ctx.rep.violation(&format!("C04:{}", kind), format!("L={} n={} (after {} rejected requests on the same connection): {}", l, n, after_errors, d), c);
        true
    };
    for k in 0..after_errors {
        let bad: &[u8] = if k % 2 == 0 { b"BAD / HTTP/1.1\r\n\r\n" } else { b"GET / HTTP/1.1\r\nnocolon\r\n\r\n" };
        let so = r.feed(ReadEv::Data(bad.to_vec(), Vec::new()));
        if !matches!(so.res, RR::Parse(_)) {
            return fail(ctx, "fault", format!("the malformed request was not rejected: {:?}", so.res));
        }
        r.script.clear_reads();
        ctx.rep.count("limit_checked_after_a_rejected_request");
    }
    // header block, cut as requested; the last segment ends exactly at the LF of the blank line
    let mut start = 0usize;
    let mut last = None;
    for si in 0..=cuts.len() {
        let end = if si < cuts.len() { cuts[si] } else { head.len() };
        if end <= start {
            continue;
        }
        let mut seg = head[start..end].to_vec();
        let is_last = end == head.len();
        if is_last && extra > 0 && n <= 70_000 {
            seg.extend_from_slice(&body[..extra]);
        }
        start = end;
        let so = r.feed(ReadEv::Data(seg, Vec::new()));
        if r.script.pending_reads() > 0 {
            return fail(ctx, "fault", "a header block shorter than the window was not taken in one read".into());
        }
        if !is_last && n > U32MAX && matches!(so.res, RR::Parse(_)) {
            // the header line that declares a length beyond 32 bits may be rejected as soon as it is complete
            last = Some(so);
            break;
        }
        if !is_last {
            if so.res != RR::Ok || !so.delivered.is_empty() {
                return fail(ctx, "early-verdict", format!("before the header block was complete: {:?} / {} deliveries", so.res, so.delivered.len()));
            }
        } else {
            last = Some(so);
        }
    }
    let so = match last {
        Some(s) => s,
        None => return false,
    };
    if n > U32MAX {
        // Not an unsigned 32-bit decimal: the header rules reject it (C15). This property adds: it is never
        // accepted under any limit, and if it is reported as a size violation the numbers are the real ones.
        ctx.rep.count("declared_lengths_beyond_32_bits");
        return match so.res {
            RR::Parse(EK::SizeLimit(gl, gn)) if gl != l || gn != n => fail(ctx, "size-limit-error-reports-other-numbers", format!("declared {} under limit {}: rejected with SizeLimitExceeded({}, {})", n, l, gl, gn)),
            RR::Parse(_) => {
                if r.conn.pending_write() {
                    return fail(ctx, "over-limit-request-invited-to-send-body", "output was queued for a request whose declared length does not even fit 32 bits".into());
                }
                false
            }
            other => fail(ctx, "over-limit-not-rejected-at-header-end", format!("declared {} (> 2^32-1 >= every limit): the read completing the header block returned {:?} (deliveries {})", n, other, so.delivered.len())),
        };
    }
    if n > l {
        ctx.rep.count("over_limit_cases");
        return match so.res {
            RR::Parse(EK::SizeLimit(gl, gn)) if gl == l && gn == n => {
                // turned away before any body byte is needed: nothing may have been queued that asks for the body
                if r.conn.pending_write() {
                    return fail(ctx, "over-limit-request-invited-to-send-body", "the request was rejected with the right numbers, but the connection queued output for it (an interim response asking for the body of a rejected request)".into());
                }
                if head.windows(7).any(|w| w.eq_ignore_ascii_case(b"expect:")) {
                    ctx.rep.count("over_limit_cases_with_expect");
                }
                false
            }
            other => fail(ctx, "over-limit-not-rejected-at-header-end", format!("the read completing the header block returned {:?} (deliveries {}), expected SizeLimitExceeded({}, {})", other, so.delivered.len(), l, n)),
        };
    }
    // n <= L : must not be rejected
    ctx.rep.count("within_limit_cases");
    if n == l {
        ctx.rep.count("exactly_at_limit_cases");
    }
    if so.res != RR::Ok {
        return fail(ctx, "within-limit-rejected", format!("the read completing the header block returned {:?}", so.res));
    }
    if n == 0 {
        if so.delivered.len() != 1 || so.delivered[0].body.is_some() {
            return fail(ctx, "zero-length", format!("expected immediate delivery without body, got {:?}", so.delivered));
        }
        return false;
    }
    if n > 70_000 {
        ctx.rep.count("huge_within_limit_only_checked_for_non_rejection");
        return false;
    }
    let mut delivered = so.delivered;
    if extra < n {
        if !delivered.is_empty() {
            return fail(ctx, "early-delivery", format!("delivered with {} of {} body bytes", extra, n));
        }
        // supply the rest of the body plus one byte of a following request
        let mut rest = body[extra..].to_vec();
        rest.push(b'G');
        r.script.push_read(ReadEv::Data(rest, Vec::new()));
        while r.script.pending_reads() > 0 {
            let s2 = r.read();
            if s2.res != RR::Ok {
                return fail(ctx, "fault", format!("while reading the body: {:?}", s2.res));
            }
            delivered.extend(s2.delivered);
        }
    }
    if delivered.len() != 1 {
        return fail(ctx, "delivery-count", format!("{} requests delivered", delivered.len()));
    }
    let b = delivered[0].body.clone().unwrap_or_default();
    if b.len() != n || b.len() > l || b[..] != body[..n] {
        return fail(ctx, "body-length", format!("delivered body of {} bytes (declared {}, limit {})", b.len(), n, l));
    }
    ctx.rep.count("bodies_delivered_with_exact_length");
    false
}

// ------------------------------------------------------------------ family (b): line lengths

/// A stream in which a line of `len` bytes (including CRLF) starts at offset `off`.
/// kind 0: request line, kind 1: header line. Returns None when `off` is not constructible.
pub fn line_stream(kind: usize, len: usize, off: usize) -> Option<(Vec<u8>, usize)> {
    let mut s = Vec::new();
    if kind == 0 {
        // preceding complete request of exactly `off` bytes
        if off > 0 {
            if off < 18 {
                return None;
            }
            s.extend_from_slice(b"GET /");
            for i in 0..off - 18 {
                s.push(b'a' + (i % 26) as u8);
            }
            s.extend_from_slice(b" HTTP/1.1\r\n\r\n");
        }
        let start = s.len();
        // request line: "PUT /uuu HTTP/1.0\r\n" of `len` bytes
        let fixed = 3 + 1 + 1 + 8 + 2;
        if len < fixed + 1 {
            return None;
        }
        s.extend_from_slice(b"PUT ");
        s.push(b'/');
        for i in 0..len - fixed - 1 {
            s.push(b'u' - (i % 20) as u8);
        }
        s.extend_from_slice(b" HTTP/1.0\r\n");
        s.extend_from_slice(b"Content-Length: 3\r\n\r\nxyzGET /next HTTP/1.1\r\n\r\n");
        Some((s, start))
    } else {
        s.extend_from_slice(b"GET / HTTP/1.1\r\n"); // 16 bytes
        if off < 16 {
            return None;
        }
        let mut pad = off - 16;
        // pad header lines, each "P: xxx\r\n" >= 6 bytes and <= 1000
        while pad > 0 {
            let take = if pad > 1000 { 500 } else { pad };
            if take < 6 {
                return None;
            }
            if pad - take > 0 && pad - take < 6 {
                // leave a constructible remainder
                let take = take - 6;
                if take < 6 {
                    return None;
                }
                s.extend_from_slice(b"P: ");
                for i in 0..take - 5 {
                    s.push(b'p' - (i % 10) as u8);
                }
                s.extend_from_slice(b"\r\n");
                pad -= take;
                continue;
            }
            s.extend_from_slice(b"P: ");
            for i in 0..take - 5 {
                s.push(b'p' - (i % 10) as u8);
            }
            s.extend_from_slice(b"\r\n");
            pad -= take;
        }
        let start = s.len();
        if start != off {
            return None;
        }
        // the measured header line: "X-Line: vvvv\r\n" of `len` bytes
        let fixed = 8 + 2;
        if len < fixed + 1 {
            return None;
        }
        s.extend_from_slice(b"X-Line: ");
        for i in 0..len - fixed {
            s.push(b'v' - (i % 17) as u8);
        }
        s.extend_from_slice(b"\r\n\r\nGET /next HTTP/1.1\r\n\r\n");
        Some((s, start))
    }
}

fn case_b_json(kind: usize, len: usize, off: usize, stream: &[u8], cuts: &[usize]) -> J {
    J::obj(vec![
        ("family", J::s("line")),
        ("line_kind", J::s(if kind == 0 { "request-line" } else { "header-line" })),
        ("line_len_with_crlf", J::u(len as u64)),
        ("line_offset", J::u(off as u64)),
        ("stream_hex", J::hexs(stream)),
        ("cuts", J::Arr(cuts.iter().map(|c| J::u(*c as u64)).collect())),
    ])
}

fn judge_line(ctx: &mut Ctx, kind: usize, len: usize, off: usize, stream: &[u8], cuts: &[usize]) -> bool {
    if !ctx.begin() {
        return false;
    }
    ctx.rep.evaluations += 1;
    let mut f = Fp::new().u(kind as u64).u(len as u64).u(off as u64);
    for c in cuts {
        f = f.u(*c as u64);
    }
    ctx.rep.distinct(f.0);
    let m = m1(stream, 51200);
    let o: Outcome = run_stream(None, stream, cuts, Gap::None, false);
    let expect_reject = len > 1024;
    let model_rejects = m.events.iter().any(|e| matches!(e, M1Event::Error { .. }));
    debug_assert_eq!(expect_reject, model_rejects);
    ctx.rep.count(if expect_reject { "lines_over_limit" } else { "lines_within_limit" });
    if len == 1024 {
        ctx.rep.count("lines_exactly_1024");
    }
    if len == 1025 {
        ctx.rep.count("lines_exactly_1025");
    }
    let mut problem = check_against_m1(&o, &m, true);
    if problem.is_none() {
        if let Some(M1Event::Error { at, .. }) = m.events.iter().find(|e| matches!(e, M1Event::Error { .. })) {
            if !(o.error_prev_bytes < *at && *at <= o.error_at_bytes) {
                problem = Some((
                    "line-rejected-at-wrong-read".into(),
                    format!("the line's 1024th byte is stream byte {} but the error came from the read covering bytes {}..{}", at, o.error_prev_bytes, o.error_at_bytes),
                ));
            }
        }
    }
    if let Some((k, d)) = problem {
        ctx.rep.violation(
            &format!("C04:line-{}", k),
            format!("{} of {} bytes (with CRLF) starting at stream offset {}: {}", if kind == 0 { "request line" } else { "header line" }, len, off, d),
            case_b_json(kind, len, off, stream, cuts),
        );
        return true;
    }
    false
}

pub fn run(ctx: &mut Ctx) {
    let quick = ctx.quick();
    // ---- (a) payload limit boundary
    let mut idx = 0u64;
    for l in limits(!quick) {
        for n in lengths_around(l) {
            for variant in 0..(if quick { 4 } else { 24 }) {
                idx += 1;
                if !ctx.mine(idx) {
                    continue;
                }
                let mut rng = ctx.item_rng(0xC04, idx);
                let h = head(n, &mut rng, variant);
                if ctx.rep.samples.len() < 3 && Some(n) == l.checked_add(1) {
                    ctx.rep.sample(J::obj(vec![("family", J::s("payload")), ("limit", J::u(l as u64)), ("declared", J::u(n as u64)), ("head", J::s(&show(&h)))]));
                }
                // header block in one read, no body byte
                if exec_payload(ctx, l, n, &h, &[], 0) {
                    continue;
                }
                // header block split at every position
                let stride = if quick { 3 } else { 1 };
                let mut bad = false;
                for p in (1..h.len()).step_by(stride) {
                    if exec_payload(ctx, l, n, &h, &[p], 0) {
                        bad = true;
                        break;
                    }
                }
                if bad {
                    continue;
                }
                // body bytes sharing the read
                for extra in [1usize, 2, n / 2, n.saturating_sub(1), n] {
                    if extra == 0 || extra > 900 {
                        continue;
                    }
                    if exec_payload(ctx, l, n, &h, &[], extra) {
                        break;
                    }
                }
                let cuts = gen::random_cuts(&mut rng, h.len(), 4);
                exec_payload(ctx, l, n, &h, &cuts, 0);
                // the limit configured on the connection persists across rejected requests
                exec_payload_ex(ctx, l, n, &h, &[], 0, 1 + variant % 2);
            }
        }
    }
    // ---- (b) line length x offset
    let mut idx = 0u64;
    let off_stride = if quick { 1 } else { 1 };
    for kind in 0..2usize {
        for len in 1000..=1100usize {
            for off in (0..1024usize).step_by(off_stride) {
                idx += 1;
                if !ctx.mine(idx) {
                    continue;
                }
                // quick: all offsets for lengths near the limit, a third of the offsets elsewhere
                if quick && !(1020..=1030).contains(&len) && (off + len) % 3 != 0 {
                    continue;
                }
                let (s, start) = match line_stream(kind, len, off) {
                    Some(x) => x,
                    None => {
                        ctx.rep.count("offsets_not_constructible");
                        continue;
                    }
                };
                debug_assert_eq!(start, off);
                if ctx.rep.samples.len() < 6 && len == 1025 && off == 100 {
                    ctx.rep.sample(J::obj(vec![("family", J::s("line")), ("kind", J::u(kind as u64)), ("len", J::u(len as u64)), ("offset", J::u(off as u64)), ("stream_prefix", J::s(&show(&s[..s.len().min(160)])))]));
                }
                if judge_line(ctx, kind, len, off, &s, &[]) {
                    continue;
                }
                let mut rng = ctx.item_rng(0xC04B, idx);
                let cuts = gen::random_cuts(&mut rng, s.len(), 6);
                if judge_line(ctx, kind, len, off, &s, &cuts) {
                    continue;
                }
                // byte-at-a-time is long; run it for the lengths around the limit and a sample elsewhere
                if (1022..=1027).contains(&len) || (off + len) % 16 == 0 {
                    judge_line(ctx, kind, len, off, &s, &gen::const_cuts(s.len(), 1));
                }
                if !quick {
                    // more segmentations per (kind, length, offset) in the thorough tier
                    for sz in [2usize, 3, 7, 512, 1023, 1024] {
                        judge_line(ctx, kind, len, off, &s, &gen::const_cuts(s.len(), sz));
                    }
                    for _ in 0..3 {
                        let cuts = gen::random_cuts(&mut rng, s.len(), 8);
                        judge_line(ctx, kind, len, off, &s, &cuts);
                    }
                }
                // cuts around the 1024th byte of the line
                let at = off + 1024;
                for d in [-2i64, -1, 0, 1] {
                    let p = at as i64 + d;
                    if p > 0 && (p as usize) < s.len() {
                        judge_line(ctx, kind, len, off, &s, &[p as usize]);
                    }
                }
            }
        }
    }
    // ---- (c) the limit is per request: pipelined requests whose bodies are each within the limit (some exactly at
    // it) but together far above it, all arriving in one read, in a few reads, byte by byte
    let mut idx = 0u64;
    for l in [1usize, 2, 8, 10, 64, 300] {
        for k in 2..=5usize {
            for shape in 0..4usize {
                idx += 1;
                if !ctx.mine(idx) {
                    continue;
                }
                let mut s = Vec::new();
                for j in 0..k {
                    let n = match shape {
                        0 => l,
                        1 => if j == 0 { 1 } else { l },
                        2 => (l + 1) / 2 + j % 2,
                        _ => if j + 1 == k { l + 1 } else { l }, // the last one really is over the limit
                    };
                    s.extend_from_slice(format!("{} /p{} HTTP/1.1\r\nContent-Length: {}\r\n\r\n", ["PUT", "PATCH", "GET"][j % 3], j, n).as_bytes());
                    s.extend((0..n).map(|i| b'a' + ((i + j) % 26) as u8));
                }
                if s.len() > 1000 && shape != 2 {
                    // keep at least the first two requests inside one window
                    ctx.rep.count("pipelined_streams_longer_than_one_window");
                }
                ctx.rep.count("pipelined_bodies_within_the_limit_each");
                for cuts in [vec![], crate::gen::const_cuts(s.len(), 1), crate::gen::const_cuts(s.len(), 37)] {
                    if crate::props::c02::judge(ctx, &s, l, &cuts, "pipelined bodies, each within the limit", "C04") {
                        break;
                    }
                }
            }
        }
    }
    server_family(ctx);
}

// ------------------------------------------------------------------ server level

/// A server applies to each connection the limit configured when the client connected and
/// answers the violation with a 400 that reports both numbers.
fn server_case(ctx: &mut Ctx, l1: usize, l2: usize, n: usize, expect: bool) -> bool {
    use crate::model::{read_all_responses};
    use crate::sim::{PollOut, Sim};
    if !ctx.begin() {
        return false;
    }
    ctx.rep.evaluations += 1;
    ctx.rep.count("server_limit_cases");
    let case = J::obj(vec![("family", J::s("server")), ("l1", J::u(l1 as u64)), ("l2", J::u(l2 as u64)), ("declared", J::u(n as u64)), ("expect", J::u(expect as u64))]);
    let mut sim = match Sim::new(false, None) {
        Ok(s) => s,
        Err(_) => return false,
    };
    let fail = |ctx: &mut Ctx, kind: &str, d: String| {
        ctx.rep.violation(&format!("C04:server:{}", kind), format!("L1={} L2={} n={}{}: {}", l1, l2, n, if expect { " with Expect: 100-continue" } else { "" }, d), case.clone());
        true
    };
    // client A is accepted under L1, then the limit changes (no connect pending), then B is accepted
    sim.set_limit(l1);
    sim.connect(0);
    sim.poll();
    sim.set_limit(l2);
    sim.connect(1);
    sim.poll();
    let body: Vec<u8> = (0..n).map(|i| b'a' + (i % 26) as u8).collect();
    for c in 0..2usize {
        let tag = format!("/c{}g0r0", c);
        let mut req = format!("PUT {} HTTP/1.1\r\n{}Content-Length: {}\r\n\r\n", tag, if expect { "Expect: 100-continue\r\n" } else { "" }, n).into_bytes();
        let limit = if c == 0 { l1 } else { l2 };
        if n <= limit {
            req.extend_from_slice(&body);
            sim.gens[c].completed.push(tag);
        }
        sim.gens[c].seq = 1;
        sim.send_bytes(c, &req);
    }
    for _ in 0..(n / 1024 + 8) {
        if sim.poll() == PollOut::Idle {
            break;
        }
    }
    sim.drain_all();
    if let Some((step, e)) = sim.api_errors.first() {
        return fail(ctx, "api-error", format!("step {}: {}", step, e));
    }
    for c in 0..2usize {
        let limit = if c == 0 { l1 } else { l2 };
        let g = &sim.gens[c];
        if n > limit {
            // rejected with a well-formed 400 naming both numbers, never yielded
            if !g.yielded.is_empty() || !sim.untagged_yields.is_empty() {
                return fail(ctx, "over-limit-yielded", format!("client {} (limit {} at accept) declared {} and the request was yielded", c, limit, n));
            }
            let (resps, used, err) = read_all_responses(&g.recv);
            if err.is_some() || used != g.recv.len() || resps.len() != 1 || resps[0].code != 400 {
                let kind = if err.is_none() && resps.iter().any(|r| r.code == 400) { "answered-by-more-than-the-400" } else { "no-400" };
                return fail(ctx, kind, format!("client {} (limit {} at accept) declared {}: received {:?}", c, limit, n, show(&g.recv)));
            }
            let text = String::from_utf8_lossy(&resps[0].body).to_string();
            let has = |x: usize| {
                let d = x.to_string();
                text.match_indices(&d).any(|(i, _)| {
                    let before = text[..i].chars().last().map(|c| c.is_ascii_digit()).unwrap_or(false);
                    let after = text[i + d.len()..].chars().next().map(|c| c.is_ascii_digit()).unwrap_or(false);
                    !before && !after
                })
            };
            if !has(limit) || !has(n) {
                return fail(ctx, "400-text", format!("client {}: the 400 body {:?} does not report both the limit {} and the declared length {}", c, text, limit, n));
            }
            ctx.rep.count("server_400_with_both_numbers");
            if expect {
                ctx.rep.count("server_over_limit_with_expect_answered_by_the_400_alone");
            }
        } else {
            if g.yielded != vec![format!("/c{}g0r0", c)] {
                return fail(ctx, "within-limit-not-yielded", format!("client {} (limit {} at accept) declared {} <= limit; yielded {:?}, received {:?}", c, limit, n, g.yielded, show(&g.recv)));
            }
            match sim.outstanding.iter().find(|o| o.gen_idx == Some(c)).and_then(|o| o.sreq.request.body.as_ref().map(|b| b.len())) {
                Some(len) if len == n => {}
                other => return fail(ctx, "body-length", format!("client {}: yielded body length {:?}, declared {}", c, other, n)),
            }
            ctx.rep.count("server_within_limit_yielded");
        }
    }
    false
}

/// Both clients declare `n`, which is above both limits: each gets a 400 with its own limit and `n` in full.
fn big_number_case(ctx: &mut Ctx, l1: usize, l2: usize, n: usize) -> bool {
    use crate::model::read_all_responses;
    use crate::sim::{PollOut, Sim};
    if !ctx.begin() {
        return false;
    }
    ctx.rep.evaluations += 1;
    let case = J::obj(vec![("family", J::s("server-big")), ("l1", J::u(l1 as u64)), ("l2", J::u(l2 as u64)), ("declared", J::u(n as u64))]);
    let mut sim = match Sim::new(false, None) {
        Ok(s) => s,
        Err(_) => return false,
    };
    sim.set_limit(l1);
    sim.connect(0);
    sim.poll();
    sim.set_limit(l2);
    sim.connect(1);
    sim.poll();
    for c in 0..2usize {
        let req = format!("PUT /c{}g0r0 HTTP/1.1\r\nContent-Length: {}\r\n\r\n", c, n).into_bytes();
        sim.gens[c].seq = 1;
        sim.send_bytes(c, &req);
    }
    for _ in 0..8 {
        if sim.poll() == PollOut::Idle {
            break;
        }
    }
    sim.drain_all();
    for c in 0..2usize {
        let limit = if c == 0 { l1 } else { l2 };
        let g = &sim.gens[c];
        let (resps, _used, err) = read_all_responses(&g.recv);
        let text = resps.first().map(|r| String::from_utf8_lossy(&r.body).to_string()).unwrap_or_default();
        let has = |x: usize| {
            let d = x.to_string();
            text.match_indices(&d).any(|(i, _)| {
                let before = text[..i].chars().last().map(|c| c.is_ascii_digit() || c == '.').unwrap_or(false);
                let after = text[i + d.len()..].chars().next().map(|c| c.is_ascii_digit() || c == '.').unwrap_or(false);
                !before && !after
            })
        };
        if err.is_some() || resps.len() != 1 || resps[0].code != 400 || !has(limit) || !has(n) || !g.yielded.is_empty() {
            ctx.rep.violation(
                "C04:server:400-text",
                format!("client {} (limit {} at accept) declared {}: the answer must be one 400 that reports both numbers in full; received {:?}", c, limit, n, show(&g.recv)),
                case,
            );
            return true;
        }
    }
    false
}

fn server_family(ctx: &mut Ctx) {
    let mut idx = 0u64;
    // numbers of seven and more digits: the 400 reports them digit for digit, not rounded
    for (l1, l2, n) in [(51200usize, 4usize, 3_000_000usize), (51200, 1, 1_048_576), (2 << 20, 51200, (2 << 20) + 1), (51200, 5, u32::MAX as usize), (1_048_575, 1_048_576, 1_048_577), (10_000_000, 9_999_999, 10_000_001)] {
        idx += 1;
        if !ctx.mine(idx) {
            continue;
        }
        ctx.rep.count("server_cases_with_numbers_of_seven_digits_or_more");
        if big_number_case(ctx, l1, l2, n) && ctx.rep.violations_total > 30 {
            return;
        }
    }
    let ls: Vec<usize> = if ctx.quick() { vec![0, 1, 5, 1024, 51200] } else { vec![0, 1, 2, 5, 16, 1023, 1024, 1025, 51199, 51200, 51201] };
    for l1 in &ls {
        for l2 in &ls {
            if l1 == l2 {
                continue;
            }
            let lo = *l1.min(l2);
            let hi = *l1.max(l2);
            let mut ns = vec![lo, lo + 1, hi, hi + 1];
            if hi > lo + 2 {
                ns.push((lo + hi) / 2);
            }
            ns.retain(|n| *n >= 1 && *n <= 60_000);
            ns.sort_unstable();
            ns.dedup();
            for n in ns {
                idx += 1;
                if !ctx.mine(idx) {
                    continue;
                }
                for expect in [false, true] {
                    if server_case(ctx, *l1, *l2, n, expect) && ctx.rep.violations_total > 30 {
                        return;
                    }
                }
            }
        }
    }
}

pub fn replay(ctx: &mut Ctx, case: &J) {
    ctx.only_case = None;
    if case.gs("family") == "server-big" {
        big_number_case(ctx, case.gu("l1") as usize, case.gu("l2") as usize, case.gu("declared") as usize);
        return;
    }
    if case.gs("family") == "server" {
        server_case(ctx, case.gu("l1") as usize, case.gu("l2") as usize, case.gu("declared") as usize, case.gu("expect") == 1);
        return;
    }
    if case.get("family").is_none() && case.get("what").is_some() && case.get("line_kind").is_none() {
        // a stream judged against the grammar model (pipelined bodies family)
        crate::props::c02::replay_with(ctx, case, "C04");
        return;
    }
    let cuts: Vec<usize> = case.garr("cuts").iter().filter_map(|c| c.as_u64()).map(|c| c as usize).collect();
    if case.gs("family") == "payload" {
        let h = case.ghex("head_hex");
        println!("head: {}", show(&h));
        exec_payload_ex(ctx, case.gu("limit") as usize, case.gu("declared") as usize, &h, &cuts, case.gu("body_bytes_in_last_read") as usize, case.gu("after_errors") as usize);
    } else {
        let s = case.ghex("stream_hex");
        let kind = if case.gs("line_kind") == "request-line" { 0 } else { 1 };
        println!("stream: {}", show(&s));
        judge_line(ctx, kind, case.gu("line_len_with_crlf") as usize, case.gu("line_offset") as usize, &s, &cuts);
    }
}
