//! C18 — shutdown request always wins: polling reports it and never blocks.
//!
//! Monitor: histories of the C08 (well-behaved), C09 (hostile) and C10 (capacity) kinds run with a
//! kill switch registered; at the end of every history (the exhaustive explorer ends a history at
//! every prefix, random histories have random lengths) the event is signalled and then, five times:
//! the epoll descriptor must be readable (otherwise requests() would block: that is the violation)
//! and requests() must return ShutdownEvent. Differential: the same action list with and without a
//! registered, unsignalled kill switch must yield the same requests and client bytes.
use crate::hist::{self, Act, Applied, HistoryProp, Piece, Size};
use crate::props::{c08, c10};
use crate::sim::{Admission, PollOut, Sim};
use crate::util::{Rng, J};
use crate::Ctx;

pub struct P18 {
    pub max_clients: usize,
    pub hostile: bool,
    pub all_pieces: bool,
}

fn describe_state(sim: &Sim) -> String {
    let conns = sim.server_side_sockets().len();
    let owed = sim.gens.iter().filter(|g| sim.owed(g)).count();
    let pending = sim.gens.iter().filter(|g| g.admission == Admission::Pending && g.stream.is_some()).count();
    let partial = sim.gens.iter().filter(|g| g.pending_rest.is_some()).count();
    format!("{} connections, {} owed answers, {} clients waiting on the listener, {} partially received requests, {} outstanding requests", conns, owed, pending, partial, sim.outstanding.len())
}

/// Signals the kill switch and polls five times.
pub fn kill_and_poll(ctx: &mut Ctx, sim: &mut Sim) -> Option<(String, String)> {
    // evidence: which kind of state the signal arrives in
    let conns = sim.server_side_sockets().len();
    if conns == 0 {
        ctx.rep.count("signalled_while_idle_without_connections");
    }
    if conns >= 10 {
        ctx.rep.count("signalled_at_capacity");
        if sim.gens.iter().any(|g| g.admission == Admission::Pending && g.stream.is_some()) {
            ctx.rep.count("signalled_at_capacity_with_a_client_waiting");
        }
    }
    if sim.gens.iter().any(|g| g.pending_rest.is_some()) {
        ctx.rep.count("signalled_with_partially_received_request");
    }
    if !sim.outstanding.is_empty() {
        ctx.rep.count("signalled_with_unanswered_requests");
    }
    if sim.server.verif_probe().iter().any(|c| c.connection.response_queue > 0 || c.connection.response_buffer.is_some()) {
        ctx.rep.count("signalled_with_unsent_output");
    }
    let ready_fds = crate::sim::epoll_interest(sim.epfd).len();
    ctx.rep.max("max_descriptors_in_epoll_set_when_signalled", ready_fds as u64);
    let state = describe_state(sim);
    if sim.kill.is_none() {
        ctx.rep.count("kill_switch_handed_to_a_running_server");
        if let Err(e) = sim.attach_kill_switch() {
            return Some(("kill-switch-refused".into(), format!("add_kill_switch on a running server failed: {} ({})", e, state)));
        }
        if sim.gens.iter().any(|g| g.stream.is_some()) {
            ctx.rep.count("kill_switch_handed_to_a_server_with_connections");
        }
    }
    if sim.kill.is_some() && sim.step % 4 == 1 {
        // the application re-arms the server with a NEW kill switch; that one is signalled
        ctx.rep.count("kill_switch_replaced_before_the_signal");
        if let Err(e) = sim.replace_kill_switch() {
            return Some(("kill-switch-refused".into(), format!("{} ({})", e, state)));
        }
    }
    sim.signal_kill();
    for k in 0..5 {
        if !sim.ready() {
            return Some(("would-block".into(), format!("after the kill switch was signalled the epoll descriptor is not readable at call #{}: requests() would block ({})", k + 1, state)));
        }
        match sim.poll() {
            PollOut::Shutdown => ctx.rep.count("shutdown_indications_observed"),
            other => {
                return Some(("shutdown-not-reported".into(), format!("call #{} after the kill switch was signalled returned {:?} instead of the shutdown indication ({})", k + 1, other, state)));
            }
        }
    }
    None
}

impl HistoryProp for P18 {
    fn new_sim(&mut self, _ctx: &mut Ctx) -> Option<Sim> {
        // every third history the server is started WITHOUT a kill switch; it is handed one only when the
        // history is over (a running, possibly busy server), just before it is signalled
        static MADE: std::sync::atomic::AtomicU64 = std::sync::atomic::AtomicU64::new(0);
        let late = MADE.fetch_add(1, std::sync::atomic::Ordering::Relaxed) % 3 == 2;
        Sim::new(!late, None).ok()
    }

    fn enabled(&self, sim: &Sim) -> Vec<Act> {
        let mut v = Vec::new();
        for c in 0..self.max_clients {
            match sim.gen_of(c) {
                None => {
                    if sim.gens.iter().filter(|g| g.client == c).count() < 2 {
                        v.push(Act::Connect(c));
                    }
                    if !sim.gens.iter().any(|g| g.client == c) {
                        break;
                    }
                }
                Some(gi) => {
                    let g = &sim.gens[gi];
                    if g.pending_rest.is_some() {
                        v.push(Act::Send(c, Piece::Rest));
                    } else if g.seq < 2 && !g.shut_wr {
                        v.push(Act::Send(c, Piece::Get));
                        v.push(Act::Send(c, Piece::Head));
                        if self.all_pieces {
                            for p in [Piece::Two, Piece::Put, Piece::Expect, Piece::GetExpect, Piece::Bad, Piece::Big] {
                                v.push(Act::Send(c, p));
                            }
                        }
                    }
                    if self.hostile {
                        v.push(Act::Close(c));
                        if !g.shut_rd {
                            v.push(Act::ShutRd(c));
                        }
                    }
                    if sim.has_unread(gi) {
                        v.push(Act::Drain(c));
                    }
                }
            }
        }
        if sim.ready() {
            v.push(Act::Poll);
        }
        for i in 0..sim.outstanding.len() {
            v.push(Act::Respond(i, Size::Small));
            if self.all_pieces {
                v.push(Act::Respond(i, Size::Large));
            }
        }
        if self.all_pieces && sim.last_answered.is_some() {
            // a misbehaving application is a server state too: a surplus response
            v.push(Act::RespondAgain);
        }
        v
    }

    fn after(&mut self, _ctx: &mut Ctx, _sim: &mut Sim, act: &Act, applied: &Applied) -> Option<(String, String)> {
        // before the signal its presence changes nothing: a ShutdownEvent now would be wrong
        if let (Act::Poll, Applied::Poll(PollOut::Shutdown)) = (act, applied) {
            return Some(("spurious-shutdown".into(), "ShutdownEvent reported although the kill switch was never signalled".into()));
        }
        None
    }

    fn finish(&mut self, ctx: &mut Ctx, sim: &mut Sim) -> Option<(String, String)> {
        kill_and_poll(ctx, sim)
    }

    fn nontrivial(&self, sim: &Sim) -> bool {
        !sim.gens.is_empty()
    }
}

/// Full-batch states: ten permanently ready connections (closed by their clients while answers
/// are owed), further clients waiting on the listener, then the signal.
fn full_batch_history(rng: &mut Rng) -> Vec<Act> {
    let mut acts = Vec::new();
    let n = *rng.pick(&[8usize, 9, 10, 10, 10]);
    for c in 0..n {
        acts.push(Act::Connect(c));
        acts.push(Act::Poll);
    }
    for c in 0..n {
        acts.push(Act::Send(c, if rng.chance(1, 3) { Piece::Two } else { Piece::Get }));
    }
    for _ in 0..rng.range(1, 3) {
        acts.push(Act::Poll);
    }
    // some answered with output left unsent (client does not read), some unanswered
    for _ in 0..rng.below(4) {
        acts.push(Act::Respond(0, if rng.chance(1, 2) { Size::Large } else { Size::Small }));
    }
    // make connections permanently ready
    for c in 0..n {
        match rng.below(4) {
            0 => {}
            1 => acts.push(Act::ShutWr(c)),
            _ => acts.push(Act::Close(c)),
        }
    }
    if rng.chance(2, 3) {
        acts.push(Act::Poll);
    }
    // further clients waiting on the listener
    for k in 0..rng.range(0, 3) {
        acts.push(Act::Connect(10 + k));
    }
    for _ in 0..rng.below(3) {
        acts.push(Act::Poll);
    }
    acts
}

/// Same action list with and without a registered (never signalled) kill switch.
fn differential(ctx: &mut Ctx, acts: &[Act]) -> Option<(String, String)> {
    let mut outs: Vec<(Vec<Vec<String>>, Vec<Vec<u8>>, usize)> = Vec::new();
    for with_kill in [true, false] {
        let mut sim = Sim::new(with_kill, None).ok()?;
        for a in acts {
            if let Applied::Poll(PollOut::Shutdown) = hist::apply(&mut sim, a) {
                return Some(("spurious-shutdown".into(), "ShutdownEvent reported although the kill switch was never signalled".into()));
            }
        }
        sim.settle(60, Some(0));
        sim.drain_all();
        outs.push((sim.gens.iter().map(|g| g.yielded.clone()).collect(), sim.gens.iter().map(|g| g.recv.clone()).collect(), sim.api_errors.len()));
    }
    ctx.rep.count("differential_pairs");
    if outs[0] != outs[1] {
        let which = if outs[0].0 != outs[1].0 { "yielded requests" } else if outs[0].1 != outs[1].1 { "bytes received by clients" } else { "API errors" };
        return Some(("presence-changes-behaviour".into(), format!("with and without a registered, unsignalled kill switch the {} differ", which)));
    }
    None
}

/// Two servers, one kill switch. Returns true when a violation was reported.
fn two_servers_case(ctx: &mut Ctx, variant: usize) -> bool {
    ctx.begin();
    ctx.rep.evaluations += 1;
    ctx.rep.count("histories_two_servers_one_kill_switch");
    let shared = match vmm_sys_util::eventfd::EventFd::new(libc::EFD_NONBLOCK) {
        Ok(e) => e,
        Err(_) => return false,
    };
    let (mut a, mut b) = match (Sim::new(false, None), Sim::new(false, None)) {
        (Ok(a), Ok(b)) => (a, b),
        _ => return false,
    };
    if a.attach_shared_kill_switch(&shared).is_err() || b.attach_shared_kill_switch(&shared).is_err() {
        return false;
    }
    if variant % 2 == 1 {
        b.connect(0);
        b.poll();
        b.send_request(0, crate::sim::ReqKind::Get);
    }
    let _ = shared.write(1);
    let case = J::obj(vec![("family", J::s("two-servers")), ("variant", J::u(variant as u64))]);
    let mut verdict: Option<String> = None;
    // the first server sees it (0..2 polls), then goes away in half of the variants
    for _ in 0..(variant % 3) {
        if !a.ready() || a.poll() != PollOut::Shutdown {
            verdict = Some("the first server does not report the shutdown".into());
        }
    }
    let keep_a = if variant >= 3 {
        drop(a);
        None
    } else {
        Some(a)
    };
    for k in 0..4 {
        if verdict.is_some() {
            break;
        }
        if !b.ready() {
            verdict = Some(format!("second server, call #{}: the kill switch was signalled and never reset by the application, yet its epoll descriptor is not readable (the other server {})", k + 1, if variant >= 3 { "reported the shutdown and was dropped" } else { "is still alive" }));
        } else if b.poll() != PollOut::Shutdown {
            verdict = Some(format!("second server, call #{} did not return the shutdown indication", k + 1));
        }
    }
    drop(keep_a);
    if let Some(d) = verdict {
        ctx.rep.violation("C18:would-block", d, case);
        return true;
    }
    false
}

pub fn run(ctx: &mut Ctx) {
    let quick = ctx.quick();
    // every prefix of every history up to the depth, well-behaved and hostile alphabets
    let mut p = P18 { max_clients: 2, hostile: false, all_pieces: false };
    hist::dfs(ctx, &mut p, if quick { 8 } else { 10 }, 3, "C18", 8);
    let mut p = P18 { max_clients: 2, hostile: true, all_pieces: false };
    hist::dfs(ctx, &mut p, if quick { 7 } else { 9 }, 3, "C18", 8);
    // random: C08-like histories of random length with 4 clients
    let n = ctx.budget(6_000, 300_000) / ctx.nshards;
    let mut p = P18 { max_clients: 4, hostile: true, all_pieces: true };
    hist::random_histories(ctx, &mut p, n, 1, 60, "C18", &mut c08::choose);
    // capacity / full-batch states
    let mut rng = ctx.rng.fork(0xC18);
    for i in 0..n {
        ctx.begin();
        ctx.rep.evaluations += 1;
        ctx.rep.count("histories_full_batch");
        let acts = full_batch_history(&mut rng);
        if ctx.rep.samples.len() < 3 && i % 30 == 2 {
            ctx.rep.sample(hist::history_json(&acts, vec![]));
        }
        let mut p = P18 { max_clients: 13, hostile: true, all_pieces: true };
        let out = hist::run_history(ctx, &mut p, &acts, true, false);
        if let Some((k, d)) = out.violation {
            ctx.rep.violation(&format!("C18:{}", k), d, hist::history_json(&acts, vec![]));
            if ctx.rep.violations_total > 20 {
                return;
            }
        }
        // differential around the capacity boundary: a registered, unsignalled kill switch must not
        // change who is accepted, refused, yielded or answered
        if i % 8 == 1 {
            let mut cacts: Vec<Act> = Vec::new();
            let k = rng.range(9, 12);
            for c in 0..k {
                cacts.push(Act::Connect(c));
                cacts.push(Act::Poll);
                if rng.chance(1, 3) {
                    cacts.push(Act::Send(c, Piece::Get));
                }
            }
            for _ in 0..rng.range(2, 6) {
                cacts.push(Act::Poll);
            }
            if let Some((k, d)) = differential(ctx, &cacts) {
                ctx.rep.count("differential_pairs_at_capacity");
                ctx.rep.violation(&format!("C18:{}", k), d, hist::history_json(&cacts, vec![("family", J::s("differential"))]));
            } else {
                ctx.rep.count("differential_pairs_at_capacity");
            }
        }
        // differential on a shorter well-behaved variant
        if i % 4 == 0 {
            let mut dacts: Vec<Act> = Vec::new();
            for _ in 0..rng.range(5, 40) {
                let c = rng.below(3);
                dacts.push(match rng.below(9) {
                    0 => Act::Connect(c),
                    1 => Act::Send(c, Piece::Get),
                    2 => Act::Send(c, Piece::Head),
                    3 => Act::Send(c, Piece::Rest),
                    4 => Act::Respond(0, Size::Small),
                    5 => Act::Drain(c),
                    6 => Act::Close(c),
                    _ => Act::Poll,
                });
            }
            if let Some((k, d)) = differential(ctx, &dacts) {
                ctx.rep.violation(&format!("C18:{}", k), d, hist::history_json(&dacts, vec![("family", J::s("differential"))]));
            }
        }
    }
    // ---- surplus responses (the application answers a request twice) at every point of a short conversation
    let mut idx = 0u64;
    for pre_polls in 0..3usize {
        for drain_first in [false, true] {
            for second_request in [false, true] {
                for polls_after in 0..3usize {
                    for nclients in 1..=2usize {
                        idx += 1;
                        if !ctx.mine(idx) {
                            continue;
                        }
                        ctx.begin();
                        ctx.rep.evaluations += 1;
                        ctx.rep.count("histories_with_a_surplus_response");
                        let mut acts = Vec::new();
                        for c in 0..nclients {
                            acts.push(Act::Connect(c));
                        }
                        acts.push(Act::Poll);
                        acts.push(Act::Poll);
                        acts.push(Act::Send(0, Piece::Get));
                        acts.push(Act::Poll);
                        acts.push(Act::Respond(0, Size::Small));
                        for _ in 0..pre_polls {
                            acts.push(Act::Poll);
                        }
                        if drain_first {
                            acts.push(Act::Drain(0));
                        }
                        if second_request {
                            acts.push(Act::Send(nclients - 1, Piece::Get));
                        }
                        acts.push(Act::RespondAgain);
                        for _ in 0..polls_after {
                            acts.push(Act::Poll);
                        }
                        let mut p = P18 { max_clients: 3, hostile: true, all_pieces: true };
                        let out = hist::run_history(ctx, &mut p, &acts, true, false);
                        if let Some((k, d)) = out.violation {
                            ctx.rep.violation(&format!("C18:{}", k), d, hist::history_json(&acts, vec![]));
                        }
                    }
                }
            }
        }
    }
    // ---- one kill switch shared by two servers (two clones of one event descriptor): after the signal BOTH keep
    // reporting the shutdown, whatever the other one does meanwhile (polls, reports it, is dropped)
    if ctx.shard % 4 == 1 {
        for variant in 0..6usize {
            if two_servers_case(ctx, variant) {
                break;
            }
        }
    }
    let _ = c10::P10::new(1);
}

pub fn replay(ctx: &mut Ctx, case: &J) {
    ctx.only_case = None;
    if case.gs("family") == "two-servers" {
        two_servers_case(ctx, case.gu("variant") as usize);
        return;
    }
    if case.gs("family") == "differential" {
        let acts = hist::parse_history(case);
        if let Some((k, d)) = differential(ctx, &acts) {
            ctx.rep.violation(&format!("C18:{}", k), d, hist::history_json(&acts, vec![("family", J::s("differential"))]));
        }
        return;
    }
    let mut p = P18 { max_clients: 13, hostile: true, all_pieces: true };
    hist::replay_history(ctx, &mut p, case, "C18");
}
