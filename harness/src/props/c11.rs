//! C11 — a rejected request is never delivered later; parsing restarts clean after errors.
//!
//! Monitor (connection level): a connection that has just reported a parse error and a freshly
//! created connection with the same limit are fed the same continuation with the same
//! segmentation; try_read results, delivered requests (all fields, attached descriptors) and
//! written interim responses must be identical step by step. If the erroring read carried
//! trailing bytes T after the offending element, fresh(T + continuation) is accepted as well
//! (the statement leaves open whether T is dropped). The server-level part is in the simulator.
use micro_http::ConnectionError;

use crate::conn::{guarded, Runner, RR};
use crate::gen::{self, GenOpts, ReqSpec, CORRUPTIONS};
use crate::model::{m1, M1Event, ReqView};
use crate::stream::ReadEv;
use crate::util::{show, Fp, Rng, J};
use crate::Ctx;

#[derive(Clone, Debug, PartialEq, Eq)]
struct Step {
    res: RR,
    delivered: Vec<ReqView>,
    files: Vec<usize>,
    written: Vec<u8>,
}

fn drain(r: &mut Runner) -> Result<Vec<u8>, String> {
    for _ in 0..64 {
        match guarded(|| r.conn.try_write()) {
            Err(p) => return Err(format!("try_write panicked: {}", p)),
            Ok(Ok(())) => {}
            Ok(Err(ConnectionError::InvalidWrite)) => return Ok(r.script.take_written()),
            Ok(Err(e)) => return Err(format!("try_write returned {:?}", e)),
        }
    }
    Err("try_write never runs out of output".into())
}

/// Feeds `data` cut at `cuts`; returns the steps (one per try_read).
fn feed_all(r: &mut Runner, data: &[u8], cuts: &[usize]) -> Result<Vec<Step>, String> {
    let mut steps = Vec::new();
    let mut start = 0usize;
    for si in 0..=cuts.len() {
        let end = if si < cuts.len() { cuts[si].min(data.len()) } else { data.len() };
        if end <= start {
            continue;
        }
        if si > 0 && (si + data.len()) % 3 == 0 {
            if let Some(e) = r.empty_read(si % 2 == 0) {
                return Err(e);
            }
        }
        r.script.push_read(ReadEv::Data(data[start..end].to_vec(), Vec::new()));
        start = end;
        while r.script.pending_reads() > 0 {
            let so = r.read();
            if let RR::Panic(p) = &so.res {
                return Err(format!("try_read panicked: {}", p));
            }
            if so.recv_calls != 1 {
                return Err(format!("{} receive calls in one try_read", so.recv_calls));
            }
            let written = drain(r)?;
            steps.push(Step { res: so.res, delivered: so.delivered, files: so.files.iter().map(|f| f.len()).collect(), written });
        }
    }
    Ok(steps)
}

fn flatten(steps: &[Step]) -> (Vec<String>, Vec<u8>) {
    let mut ev = Vec::new();
    let mut w = Vec::new();
    for s in steps {
        for (d, f) in s.delivered.iter().zip(s.files.iter()) {
            ev.push(format!("D{:?}f{}", d, f));
        }
        if let RR::Parse(e) = &s.res {
            ev.push(format!("E{:?}", e));
        }
        w.extend_from_slice(&s.written);
    }
    (ev, w)
}

pub struct Case {
    pub a: Vec<u8>,
    pub b: Vec<u8>,
    pub limit: usize,
    pub cuts_a: Vec<usize>,
    pub cuts_b: Vec<usize>,
    /// index of the segment of A that carries descriptors (usize::MAX = none) and how many
    pub fd_seg: usize,
    pub nfds: usize,
    pub what: String,
}

fn case_json(c: &Case) -> J {
    J::obj(vec![
        ("engine", J::s("scripted-stream")),
        ("what", J::s(&c.what)),
        ("a_hex", J::hexs(&c.a)),
        ("a_show", J::s(&show(&c.a))),
        ("b_hex", J::hexs(&c.b)),
        ("b_show", J::s(&show(&c.b))),
        ("limit", J::u(c.limit as u64)),
        ("cuts_a", J::Arr(c.cuts_a.iter().map(|x| J::u(*x as u64)).collect())),
        ("cuts_b", J::Arr(c.cuts_b.iter().map(|x| J::u(*x as u64)).collect())),
        ("fd_seg", J::Int(if c.fd_seg == usize::MAX { -1 } else { c.fd_seg as i64 })),
        ("nfds", J::u(c.nfds as u64)),
    ])
}

fn devnull_fds(n: usize) -> Vec<i32> {
    (0..n)
        .filter_map(|_| {
            // SAFETY: plain open(2) of /dev/null; ownership passes to the connection under test.
            let fd = unsafe { libc::open(b"/dev/null\0".as_ptr() as *const libc::c_char, libc::O_RDONLY | libc::O_CLOEXEC) };
            if fd >= 0 {
                Some(fd)
            } else {
                None
            }
        })
        .collect()
}

pub fn exec(ctx: &mut Ctx, c: &Case) -> bool {
    if !ctx.begin() {
        return false;
    }
    ctx.rep.evaluations += 1;
    let m = m1(&c.a, c.limit);
    if m.dont_care {
        return false;
    }
    let err_at = match m.events.iter().find_map(|e| if let M1Event::Error { at, .. } = e { Some(*at) } else { None }) {
        Some(a) => a,
        None => {
            ctx.rep.count("prefix_without_error_skipped");
            return false;
        }
    };
    // ---- phase 1: feed A until the error is reported
    let mut r = Runner::new(Some(c.limit));
    r.keep_files = true;
    let mut consumed = 0usize;
    let mut start = 0usize;
    let mut errored = false;
    let mut state_at_error = 0u8;
    let mut written_before_and_at_error: Vec<u8> = Vec::new();
    'outer: for si in 0..=c.cuts_a.len() {
        let end = if si < c.cuts_a.len() { c.cuts_a[si].min(c.a.len()) } else { c.a.len() };
        if end <= start {
            continue;
        }
        let fds = if si == c.fd_seg { devnull_fds(c.nfds) } else { Vec::new() };
        r.script.push_read(ReadEv::Data(c.a[start..end].to_vec(), fds));
        start = end;
        while r.script.pending_reads() > 0 {
            let before = r.script.pending_read_bytes();
            let probe_state = r.conn.verif_probe();
            let so = r.read();
            consumed += before - r.script.pending_read_bytes();
            if let Ok(w) = drain(&mut r) {
                written_before_and_at_error.extend_from_slice(&w);
            }
            match so.res {
                RR::Ok => {}
                RR::Parse(_) => {
                    errored = true;
                    state_at_error = probe_state.state;
                    ctx.rep.count(if probe_state.read_cursor > 0 { "errors_with_partial_line_buffered" } else { "errors_with_empty_carry" });
                    break 'outer;
                }
                other => {
                    ctx.rep.violation("C11:fault", format!("[{}] try_read returned {:?} while feeding the prefix", c.what, other), case_json(c));
                    return true;
                }
            }
        }
    }
    if !errored {
        // the model sees an error in A but the connection did not report one: C02's business
        ctx.rep.count("prefix_error_not_reported_skipped");
        return false;
    }
    r.script.clear_reads();
    ctx.rep.count(&format!("errors_in_state_{}", ["reqline", "headers", "body", "ready"][(state_at_error as usize).min(3)]));
    // nothing of the rejected request is retained in the OUTPUT either: what the connection has produced up to and
    // including the erroring read is exactly the interim responses owed to the requests that precede the error
    {
        let want: Vec<u8> = m.events.iter().take_while(|e| !matches!(e, M1Event::Error { .. })).filter_map(|e| if let M1Event::Continue100 { version, .. } = e { Some(*version) } else { None }).collect();
        let (resps, used, perr) = crate::model::read_all_responses(&written_before_and_at_error);
        let got: Vec<u8> = resps.iter().map(|r| r.version).collect();
        let all_100 = resps.iter().all(|r| r.code == 100);
        if perr.is_some() || used != written_before_and_at_error.len() || !all_100 || got != want {
            ctx.rep.violation(
                "C11:output-left-by-rejected-request",
                format!("[{}] up to the error the input owes {} interim responses (versions {:?}); the connection produced {:?}", c.what, want.len(), want, show(&written_before_and_at_error)),
                case_json(c),
            );
            return true;
        }
        if !want.is_empty() {
            ctx.rep.count("interim_responses_before_the_error_checked");
        }
    }
    // ---- phase 2: continuation on the post-error connection and on a fresh one
    let mut bp = c.a[consumed.min(c.a.len())..].to_vec();
    let rest_len = bp.len();
    bp.extend_from_slice(&c.b);
    let cuts_b: Vec<usize> = c.cuts_b.iter().map(|x| x + rest_len).collect();
    let mut f = Fp::new().bytes(&c.a).bytes(&c.b).u(c.limit as u64).u(c.nfds as u64);
    for x in c.cuts_a.iter().chain(c.cuts_b.iter()) {
        f = f.u(*x as u64);
    }
    ctx.rep.distinct(f.0);
    let post = match feed_all(&mut r, &bp, &cuts_b) {
        Ok(s) => s,
        Err(e) => {
            ctx.rep.violation("C11:fault", format!("[{}] after the error: {}", c.what, e), case_json(c));
            return true;
        }
    };
    let mut fresh_r = Runner::new(Some(c.limit));
    fresh_r.keep_files = true;
    let fresh = match feed_all(&mut fresh_r, &bp, &cuts_b) {
        Ok(s) => s,
        Err(e) => {
            ctx.rep.violation("C11:fault", format!("[{}] fresh connection: {}", c.what, e), case_json(c));
            return true;
        }
    };
    ctx.rep.add("post_error_deliveries", post.iter().map(|s| s.delivered.len() as u64).sum());
    ctx.rep.add("post_error_further_errors", post.iter().filter(|s| matches!(s.res, RR::Parse(_))).count() as u64);
    if post == fresh {
        ctx.rep.count("equal_to_fresh_stepwise");
        return false;
    }
    // alternative: the trailing bytes T of the erroring read were kept
    if consumed > err_at {
        let mut tb = c.a[err_at..consumed.min(c.a.len())].to_vec();
        tb.extend_from_slice(&bp);
        let mut alt_r = Runner::new(Some(c.limit));
        alt_r.keep_files = true;
        if let Ok(alt) = feed_all(&mut alt_r, &tb, &[]) {
            if flatten(&alt) == flatten(&post) {
                ctx.rep.count("equal_to_fresh_with_trailing_bytes");
                return false;
            }
        }
    }
    // find the first differing step for the report
    let i = (0..post.len().min(fresh.len())).find(|i| post[*i] != fresh[*i]).unwrap_or(post.len().min(fresh.len()));
    let kind = {
        let pd: usize = post.iter().map(|s| s.delivered.len()).sum();
        let fd: usize = fresh.iter().map(|s| s.delivered.len()).sum();
        if pd > fd {
            "extra-delivery-after-error"
        } else if pd < fd {
            "lost-delivery-after-error"
        } else if post.iter().zip(fresh.iter()).any(|(a, b)| a.files != b.files) {
            "descriptors-retained-after-error"
        } else {
            "differs-from-fresh"
        }
    };
    ctx.rep.violation(
        &format!("C11:{}", kind),
        format!(
            "[{}] error reported after {} bytes (offending element ends at {}); continuation {:?}; step {}: post-error connection {:?} vs fresh connection {:?}",
            c.what,
            consumed,
            err_at,
            show(&bp),
            i,
            post.get(i),
            fresh.get(i)
        ),
        case_json(c),
    );
    true
}

fn long_line(n: usize) -> Vec<u8> {
    (0..n).map(|i| b'a' + (i % 26) as u8).collect()
}

/// Error-inducing prefixes: 0-2 valid requests followed by one offending request.
fn error_prefix(rng: &mut Rng, limit: usize) -> (Vec<u8>, String) {
    let opts = GenOpts { limit, body_lens: vec![0, 0, 1, 7, 300, 1100], ..Default::default() };
    let k = rng.below(3);
    let mut s = Vec::new();
    for j in 0..k {
        s.extend_from_slice(&gen::render_raw(&gen::valid_request(rng, j, &opts)));
    }
    let mut bad: ReqSpec = gen::valid_request(rng, 7, &opts);
    bad.uri = b"/REJECTED".to_vec();
    let what;
    match rng.below(10) {
        0 => {
            // request line too long
            bad.uri = long_line(rng.range(1020, 1400));
            what = "reqline_too_long".to_string();
        }
        1 => {
            let p = rng.below(bad.headers.len() + 1);
            let mut h = b"X-Long: ".to_vec();
            h.extend(long_line(rng.range(1020, 1400)));
            bad.headers.insert(p, h);
            what = "header_line_too_long".to_string();
        }
        2 => {
            bad.headers.retain(|h| !h.to_ascii_lowercase().starts_with(b"content-length"));
            bad.headers.push(format!("Content-Length: {}", limit + 1 + rng.below(5)).into_bytes());
            if rng.chance(1, 2) {
                bad.headers.push(b"Expect: 100-continue".to_vec());
            }
            bad.body = Vec::new();
            what = "size_limit".to_string();
        }
        _ => {
            let c = *rng.pick(&CORRUPTIONS);
            gen::corrupt(&mut bad, c, rng);
            what = c.to_string();
        }
    }
    s.extend_from_slice(&gen::render_raw(&bad));
    (s, format!("{} after {} valid", what, k))
}

fn continuation(rng: &mut Rng, limit: usize) -> (Vec<u8>, &'static str) {
    let opts = GenOpts { limit, body_lens: vec![0, 0, 1, 7, 300], ..Default::default() };
    match rng.below(12) {
        0 => (b"\r\n".to_vec(), "blank line"),
        1 => (b"\r\n\r\n".to_vec(), "two blank lines"),
        2 => (b"Content-Length: 1\r\n\r\nX".to_vec(), "header-like + blank + byte"),
        3 => (b"X-More: header\r\n\r\n".to_vec(), "header-like line + blank"),
        4 => (b"\r\nGET /after HTTP/1.1\r\n\r\n".to_vec(), "blank then valid"),
        5 => (rng.bytes(40), "garbage"),
        6 => {
            let mut v = b"BAD\r\n".to_vec();
            v.extend_from_slice(&gen::render_raw(&gen::valid_request(rng, 3, &opts)));
            (v, "second error then valid")
        }
        7 => {
            // a request whose declared length is above this connection's limit (and below the default one)
            let n = limit + 1 + rng.below(40);
            let mut v = format!("PUT /over HTTP/1.1\r\nContent-Length: {}\r\n\r\n", n).into_bytes();
            v.extend(std::iter::repeat(b'o').take(n.min(3000)));
            (v, "request declaring limit+k bytes")
        }
        8 => {
            let mut v = b"\n".to_vec();
            v.extend_from_slice(&gen::render_raw(&gen::valid_request(rng, 4, &opts)));
            (v, "LF then valid")
        }
        _ => {
            let mut v = Vec::new();
            for j in 0..rng.range(1, 3) {
                v.extend_from_slice(&gen::render_raw(&gen::valid_request(rng, 10 + j, &opts)));
            }
            (v, "valid requests")
        }
    }
}

pub fn run(ctx: &mut Ctx) {
    let quick = ctx.quick();
    let n = ctx.budget(1500, 40000);
    for i in 0..n {
        if !ctx.mine(i) {
            continue;
        }
        let mut rng = ctx.item_rng(0xC11, i);
        let limit = *rng.pick(&[51200usize, 4096, 64]);
        let (a, what_a) = error_prefix(&mut rng, limit);
        let conts: Vec<(Vec<u8>, &'static str)> = (0..(if quick { 3 } else { 8 })).map(|_| continuation(&mut rng, limit)).collect();
        if ctx.rep.want_sample() {
            ctx.rep.sample(J::obj(vec![("prefix", J::s(&show(&a))), ("what", J::s(&what_a)), ("continuation", J::s(&show(&conts[0].0)))]));
        }
        // every cut of A (so that a partial line is buffered when the error fires), around the end densely
        let mut cut_sets: Vec<Vec<usize>> = vec![vec![]];
        let dense_from = a.len().saturating_sub(if quick { 60 } else { 400 });
        for p in 1..a.len() {
            if p >= dense_from || p % (if quick { 37 } else { 5 }) == 0 {
                cut_sets.push(vec![p]);
            }
        }
        for _ in 0..(if quick { 3 } else { 12 }) {
            cut_sets.push(gen::random_cuts(&mut rng, a.len(), 5));
        }
        cut_sets.push(gen::const_cuts(a.len(), 1));
        'cases: for (bi, (b, what_b)) in conts.iter().enumerate() {
            for (ci, cuts_a) in cut_sets.iter().enumerate() {
                if bi > 0 && (ci + bi) % 4 != 0 {
                    continue; // the full cut sweep runs with the first continuation, a quarter with the others
                }
                let cuts_b = match ci % 3 {
                    0 => vec![],
                    1 => gen::random_cuts(&mut rng, b.len(), 4),
                    _ => gen::const_cuts(b.len(), 1 + ci % 5),
                };
                let with_fds = (ci + bi) % 5 == 0;
                let nseg = cuts_a.len() + 1;
                let case = Case {
                    a: a.clone(),
                    b: b.clone(),
                    limit,
                    cuts_a: cuts_a.clone(),
                    cuts_b,
                    fd_seg: if with_fds { rng.below(nseg) } else { usize::MAX },
                    nfds: if with_fds { rng.range(1, 3) } else { 0 },
                    what: format!("{} | then {}", what_a, what_b),
                };
                if with_fds {
                    ctx.rep.count("cases_with_descriptors");
                }
                if exec(ctx, &case) {
                    break 'cases;
                }
            }
        }
    }
    heavy_family(ctx);
    server_family(ctx);
}

/// Size-heavy cases: the rejected request has consumed several KiB of legal header lines before its
/// fault, and the continuation has a large head (and possibly another large rejected request) of its own:
/// nothing proportional to what was consumed before the error may be charged to what follows.
fn heavy_family(ctx: &mut Ctx) {
    let quick = ctx.quick();
    let long_headers = |tag: &str, n: usize, len: usize| -> Vec<u8> {
        let mut v = Vec::new();
        for i in 0..n {
            let mut l = format!("X-{}{}: ", tag, i).into_bytes();
            while l.len() < len {
                l.push(b'a' + ((l.len() + i) % 26) as u8);
            }
            v.extend_from_slice(&l);
            v.extend_from_slice(b"\r\n");
        }
        v
    };
    let faults: [(&[u8], &str); 5] = [
        (b"nocolon\r\n", "header without colon"),
        (b"Content-Length: x\r\n", "bad Content-Length"),
        (b"Content-Length: 51201\r\n\r\n", "size limit"),
        (b"Accept-Encoding: identity;q=0\r\n", "identity excluded"),
        (b"X: \xff\r\n", "non-UTF-8 header"),
    ];
    let mut idx = 0u64;
    for (h1, l1) in [(3usize, 900usize), (8, 900), (8, 1020), (20, 400), (60, 1000), (100, 90)] {
        for (fault, fname) in faults.iter() {
            for (h2, l2) in [(0usize, 0usize), (2, 900), (9, 900), (9, 1020), (40, 1000)] {
                for shape in 0..3usize {
                    idx += 1;
                    if !ctx.mine(idx) {
                        continue;
                    }
                    if quick && (idx % 3 != 0) {
                        continue;
                    }
                    let mut a = b"GET /REJECTED HTTP/1.1\r\n".to_vec();
                    a.extend_from_slice(&long_headers("R", h1, l1));
                    a.extend_from_slice(fault);
                    let valid = |tag: &str| -> Vec<u8> {
                        let mut v = format!("PUT /after-{} HTTP/1.1\r\n", tag).into_bytes();
                        v.extend_from_slice(&long_headers(tag, h2, l2));
                        v.extend_from_slice(b"Content-Length: 5\r\n\r\nhello");
                        v
                    };
                    let mut b = Vec::new();
                    match shape {
                        0 => b.extend_from_slice(&valid("A")),
                        1 => {
                            // a second large rejected request, then two valid ones
                            b.extend_from_slice(b"GET /REJECTED2 HTTP/1.1\r\n");
                            b.extend_from_slice(&long_headers("S", h1, l1));
                            b.extend_from_slice(b"nocolon2\r\n");
                            b.extend_from_slice(&valid("B"));
                            b.extend_from_slice(&valid("C"));
                        }
                        _ => {
                            b.extend_from_slice(&valid("D"));
                            b.extend_from_slice(&valid("E"));
                            b.extend_from_slice(&valid("F"));
                        }
                    }
                    let mut rng = ctx.item_rng(0xC11_4EA, idx);
                    for cuts_kind in 0..3usize {
                        let (cuts_a, cuts_b) = match cuts_kind {
                            0 => (vec![], vec![]),
                            1 => (gen::const_cuts(a.len(), 1024), gen::const_cuts(b.len(), 1000)),
                            _ => (gen::random_cuts(&mut rng, a.len(), 5), gen::random_cuts(&mut rng, b.len(), 6)),
                        };
                        let case = Case {
                            a: a.clone(),
                            b: b.clone(),
                            limit: 51200,
                            cuts_a,
                            cuts_b,
                            fd_seg: usize::MAX,
                            nfds: 0,
                            what: format!("{} after {} legal header lines of {} bytes | then shape {} with {} header lines of {} bytes", fname, h1, l1, shape, h2, l2),
                        };
                        ctx.rep.count("heavy_cases");
                        ctx.rep.max("max_rejected_head_bytes", a.len() as u64);
                        if exec(ctx, &case) {
                            return;
                        }
                    }
                }
            }
        }
    }
}

// ------------------------------------------------------------------ server level

fn server_case_json(bad: &[u8], split: usize, cont: &[u8], pre_valid: bool) -> J {
    J::obj(vec![
        ("engine", J::s("server-simulator")),
        ("bad_hex", J::hexs(bad)),
        ("bad_show", J::s(&show(bad))),
        ("split", J::u(split as u64)),
        ("continuation_hex", J::hexs(cont)),
        ("continuation_show", J::s(&show(cont))),
        ("pre_valid", J::Bool(pre_valid)),
    ])
}

/// After a 400 the rejected request is never yielded and a following well-formed request on
/// the same connection is yielded and answered. `bad` must contain the text REJECTED in its URI.
fn server_case(ctx: &mut Ctx, bad: &[u8], split: usize, cont: &[u8], pre_valid: bool) -> bool {
    server_case_ex(ctx, bad, split, cont, pre_valid, false)
}

/// `ahead`: a complete valid request is pipelined in front of the offending one in the same write. The server may
/// yield it by the time it answers the 400 or drop it; what it must not do is yield it from a LATER read, because
/// bytes read after the error are to be handled as on a fresh connection.
fn server_case_ex(ctx: &mut Ctx, bad: &[u8], split: usize, cont: &[u8], pre_valid: bool, ahead: bool) -> bool {
    use crate::sim::{judge_client, JudgeOpts, PollOut, ReqKind, Sim};
    if !ctx.begin() {
        return false;
    }
    ctx.rep.evaluations += 1;
    ctx.rep.count("server_cases");
    let mut sim = match Sim::new(false, None) {
        Ok(s) => s,
        Err(_) => return false,
    };
    let fail = |ctx: &mut Ctx, kind: &str, d: String| {
        let mut c = server_case_json(bad, split, cont, pre_valid);
        if let J::Obj(kv) = &mut c {
            kv.push(("ahead".to_string(), J::Bool(ahead)));
        }
        ctx.rep.violation(&format!("C11:server:{}", kind), d, c);
        true
    };
    sim.connect(0);
    sim.poll();
    let gi = 0;
    let mut expected: Vec<String> = Vec::new();
    if pre_valid {
        sim.send_request(gi, ReqKind::Get);
        expected.push(sim.gens[gi].completed.last().cloned().unwrap_or_default());
        for _ in 0..3 {
            sim.poll();
        }
        while !sim.outstanding.is_empty() {
            sim.respond(0, 0);
        }
        sim.poll();
        sim.drain(gi, 0);
    }
    // the offending request, possibly in two writes so that a partial line is buffered
    let split = split.min(bad.len());
    let mut ahead_tag: Option<String> = None;
    if ahead {
        // [valid request][offending request] in one write
        let (tag, mut bytes) = sim.next_request(gi, ReqKind::Get);
        bytes.extend_from_slice(bad);
        sim.send_bytes(gi, &bytes);
        sim.gens[gi].completed.push(tag.clone());
        ahead_tag = Some(tag);
        ctx.rep.count("server_cases_with_valid_request_pipelined_ahead");
    } else if split > 0 && split < bad.len() {
        sim.send_bytes(gi, &bad[..split]);
        sim.poll();
        sim.send_bytes(gi, &bad[split..]);
    } else {
        sim.send_bytes(gi, bad);
    }
    // poll until the server has consumed the whole offending input and gone idle
    let mut got_400 = false;
    for _ in 0..16 {
        let idle = sim.poll() == PollOut::Idle;
        sim.drain(gi, 0);
        if idle {
            break;
        }
    }
    if let Ok(v) = judge_client(&sim.gens[gi], &JudgeOpts { allow_500: false }) {
        got_400 = v.bad_requests >= 1 && v.partial_tail == 0;
    }
    if !got_400 {
        return fail(ctx, "no-400", format!("the client sent {:?} and never received a complete 400", show(bad)));
    }
    ctx.rep.count("server_400_received");
    if let Some(t) = &ahead_tag {
        // yielded by now, or dropped: both are fine; from here on it must not appear any more
        if sim.gens[gi].yielded.contains(t) {
            expected.push(t.clone());
            ctx.rep.count("server_pipelined_ahead_request_yielded_with_the_error_read");
        } else {
            ctx.rep.count("server_pipelined_ahead_request_dropped");
        }
    }
    // continuation bytes that contain no valid request
    if !cont.is_empty() {
        sim.send_bytes(gi, cont);
        for _ in 0..8 {
            let idle = sim.poll() == PollOut::Idle;
            sim.drain(gi, 0);
            if idle {
                break;
            }
        }
    }
    // a well-formed request afterwards
    sim.send_request(gi, ReqKind::Get);
    let tag = sim.gens[gi].completed.last().cloned().unwrap_or_default();
    expected.push(tag.clone());
    let mut answered = false;
    for _ in 0..8 {
        if let Some(oi) = sim.outstanding.iter().position(|o| o.tag == tag) {
            sim.respond(oi, 0);
            answered = true;
        }
        if sim.poll() == PollOut::Idle && answered {
            break;
        }
        sim.drain(gi, 0);
    }
    sim.drain(gi, 0);
    if let Some((step, e)) = sim.api_errors.first() {
        return fail(ctx, "api-error", format!("step {}: {}", step, e));
    }
    if let Some(u) = sim.untagged_yields.first() {
        return fail(ctx, "rejected-request-yielded", format!("after the 400 for {:?} (continuation {:?}) a request with URI {:?} was yielded to the application", show(bad), show(cont), u));
    }
    if sim.gens[gi].yielded != expected {
        let kind = if sim.gens[gi].yielded.len() < expected.len() { "later-valid-request-not-yielded" } else { "unexpected-yield" };
        return fail(ctx, kind, format!("yielded {:?}, expected exactly {:?} (bad request {:?}, continuation {:?})", sim.gens[gi].yielded, expected, show(bad), show(cont)));
    }
    match judge_client(&sim.gens[gi], &JudgeOpts { allow_500: false }) {
        Err((k, d)) => return fail(ctx, &k, d),
        Ok(v) => {
            // (a pipelined-ahead request that was yielded is left unanswered by this scenario)
            let answered = expected.len() - ahead_tag.as_ref().map(|t| expected.contains(t) as usize).unwrap_or(0);
            if v.app_responses != answered {
                return fail(ctx, "later-valid-request-not-answered", format!("{} application responses received, {} expected", v.app_responses, expected.len()));
            }
        }
    }
    ctx.rep.count("server_valid_request_after_400_yielded_and_answered");
    false
}

/// Requests of the same connection are already with the application (yielded, unanswered) when the malformed
/// request arrives; a well-formed request follows; then the application answers everything, one by one or in
/// one batch. The malformed request must not make the later one (or the answering) fail.
fn server_held_case(ctx: &mut Ctx, bad: &[u8], nheld: usize, batch: bool, close_after: bool) -> bool {
    use crate::sim::{judge_client, JudgeOpts, PollOut, ReqKind, Sim};
    if !ctx.begin() {
        return false;
    }
    ctx.rep.evaluations += 1;
    ctx.rep.count("server_cases_with_unanswered_requests_at_the_error");
    let mut sim = match Sim::new(false, None) {
        Ok(s) => s,
        Err(_) => return false,
    };
    let fail = |ctx: &mut Ctx, kind: &str, d: String| {
        let c = J::obj(vec![
            ("engine", J::s("server-simulator")),
            ("family", J::s("held")),
            ("bad_hex", J::hexs(bad)),
            ("bad_show", J::s(&show(bad))),
            ("held", J::u(nheld as u64)),
            ("batch", J::Bool(batch)),
            ("close_after", J::Bool(close_after)),
        ]);
        ctx.rep.violation(&format!("C11:server:{}", kind), d, c);
        true
    };
    sim.connect(0);
    sim.connect(1); // a bystander
    sim.poll();
    sim.poll();
    let gi = 0;
    for _ in 0..nheld {
        sim.send_request(gi, ReqKind::Get);
    }
    sim.send_request(1, ReqKind::Get);
    for _ in 0..6 {
        if sim.poll() == PollOut::Idle {
            break;
        }
    }
    if sim.gens[gi].yielded.len() != nheld {
        return fail(ctx, "fault", format!("{} requests sent, {} yielded before the malformed one", nheld, sim.gens[gi].yielded.len()));
    }
    sim.send_bytes(gi, bad);
    for _ in 0..16 {
        let idle = sim.poll() == PollOut::Idle;
        sim.drain(gi, 0);
        if idle {
            break;
        }
    }
    match judge_client(&sim.gens[gi], &JudgeOpts { allow_500: false }) {
        Ok(v) if v.bad_requests >= 1 && v.partial_tail == 0 => {}
        other => return fail(ctx, "no-400", format!("the client sent {:?} and has not received a complete 400: {:?}", show(bad), other.map(|v| v.bad_requests))),
    }
    // the later well-formed request
    sim.send_request(gi, ReqKind::Get);
    let later = sim.gens[gi].completed.last().cloned().unwrap_or_default();
    for _ in 0..8 {
        if sim.poll() == PollOut::Idle {
            break;
        }
    }
    if !sim.gens[gi].yielded.contains(&later) {
        return fail(ctx, "later-valid-request-not-yielded", format!("yielded {:?}; {} was sent after the 400", sim.gens[gi].yielded, later));
    }
    // the application answers everything it holds: the requests from before the error, the later one, the bystander's
    if batch {
        let order: Vec<usize> = (0..sim.outstanding.len()).collect();
        sim.respond_batch(&order, 0);
    } else {
        while !sim.outstanding.is_empty() {
            sim.respond(0, 0);
        }
    }
    for _ in 0..24 {
        let idle = sim.poll() == PollOut::Idle;
        sim.drain_all();
        if idle {
            break;
        }
    }
    if let Some((step, e)) = sim.api_errors.first() {
        return fail(ctx, "api-error", format!("step {}: {} ({} requests were unanswered when the malformed request arrived)", step, e, nheld));
    }
    for g in [gi, 1] {
        match judge_client(&sim.gens[g], &JudgeOpts { allow_500: false }) {
            Err((k, d)) => return fail(ctx, &k, d),
            Ok(v) => {
                if v.app_responses != sim.gens[g].supplied.len() || v.partial_tail != 0 {
                    return fail(
                        ctx,
                        "later-valid-request-not-answered",
                        format!("c{}: {} answers supplied, {} received ({} requests were unanswered when the malformed request arrived; batch: {})", g, sim.gens[g].supplied.len(), v.app_responses, nheld, batch),
                    );
                }
            }
        }
    }
    if close_after {
        // and the connection is released once its client leaves (nothing is owed any more)
        sim.close(gi);
        for _ in 0..6 {
            if sim.poll() == PollOut::Idle {
                break;
            }
        }
        if sim.server_side_sockets().iter().any(|(_, g)| *g == Some(gi)) {
            return fail(ctx, "connection-kept-after-everything-was-answered", format!("the client left after all its {} answers were supplied; the server still holds its socket", sim.gens[gi].supplied.len()));
        }
    }
    ctx.rep.count("server_later_request_answered_with_earlier_ones_held");
    false
}

fn server_family(ctx: &mut Ctx) {
    let bads: Vec<Vec<u8>> = vec![
        b"GET /REJECTED HTTP/1.1\r\nbadheader\r\n\r\n".to_vec(),
        b"GET /REJECTED HTTP/1.1\r\nbadheader\r\n".to_vec(),
        b"BAD /REJECTED HTTP/1.1\r\n\r\n".to_vec(),
        b"BAD /REJECTED HTTP/1.1\r\n".to_vec(),
        b"GET /REJECTED HTTP/9.9\r\n".to_vec(),
        b"GET /REJECTED HTTP/1.1\r\nContent-Length: x\r\n".to_vec(),
        b"PUT /REJECTED HTTP/1.1\r\nContent-Length: 51201\r\n\r\n".to_vec(),
        b"PUT /REJECTED HTTP/1.1\r\nExpect: 100-continue\r\nContent-Length: 99999\r\n\r\n".to_vec(),
        b"GET /REJECTED HTTP/1.1\r\nAccept-Encoding: identity;q=0\r\n".to_vec(),
        b"GET /REJECTED HTTP/1.1\r\nX: \xff\xfe\r\n".to_vec(),
        {
            let mut v = b"GET /REJECTED".to_vec();
            v.extend(std::iter::repeat(b'a').take(1100));
            v.extend_from_slice(b" HTTP/1.1\r\n\r\n");
            v
        },
        {
            let mut v = b"GET /REJECTED HTTP/1.1\r\nX-Long: ".to_vec();
            v.extend(std::iter::repeat(b'b').take(1100));
            v.extend_from_slice(b"\r\n\r\n");
            v
        },
    ];
    let conts: Vec<&[u8]> = vec![b"", b"\r\n", b"\r\n\r\n", b"Content-Length: 1\r\n\r\nX", b"X-More: h\r\n\r\n", b"\x00garbage\r\n"];
    let mut idx = 0u64;
    for (bi, bad) in bads.iter().enumerate() {
        // only offending requests that are complete in themselves (nothing of them is left to arrive)
        if !(bad.ends_with(b"\r\n\r\n") || bi == 2) {
            continue;
        }
        for nheld in 1..=3usize {
            for batch in [false, true] {
                for close_after in [false, true] {
                    idx += 1;
                    if !ctx.mine(idx) {
                        continue;
                    }
                    if server_held_case(ctx, bad, nheld, batch, close_after) && ctx.rep.violations_total > 30 {
                        return;
                    }
                }
            }
        }
    }
    for bad in &bads {
        let splits: Vec<usize> = if ctx.quick() { vec![0, 5, bad.len().saturating_sub(3)] } else { (0..bad.len().min(60)).chain([bad.len().saturating_sub(3), bad.len() / 2]).collect() };
        for split in splits {
            // the first write must not already contain the offending element: otherwise the tail of the
            // rejected request arrives after the error and is, rightly, parsed as new input
            if split > 0 && split < bad.len() && crate::model::m1(&bad[..split], 51200).events.iter().any(|e| matches!(e, M1Event::Error { .. })) {
                continue;
            }
            for cont in &conts {
                for pre in [false, true] {
                    idx += 1;
                    if !ctx.mine(idx) {
                        continue;
                    }
                    if server_case(ctx, bad, split, cont, pre) && ctx.rep.violations_total > 30 {
                        return;
                    }
                    if split == 0 && server_case_ex(ctx, bad, 0, cont, pre, true) && ctx.rep.violations_total > 30 {
                        return;
                    }
                }
            }
        }
    }
}

pub fn replay(ctx: &mut Ctx, case: &J) {
    if case.gs("family") == "held" {
        ctx.only_case = None;
        server_held_case(ctx, &case.ghex("bad_hex"), case.gu("held") as usize, matches!(case.get("batch"), Some(J::Bool(true))), matches!(case.get("close_after"), Some(J::Bool(true))));
        return;
    }
    if case.gs("engine") == "server-simulator" {
        ctx.only_case = None;
        server_case_ex(ctx, &case.ghex("bad_hex"), case.gu("split") as usize, &case.ghex("continuation_hex"), matches!(case.get("pre_valid"), Some(J::Bool(true))), matches!(case.get("ahead"), Some(J::Bool(true))));
        return;
    }
    let fd_seg = case.get("fd_seg").and_then(|x| x.as_i64()).unwrap_or(-1);
    let c = Case {
        a: case.ghex("a_hex"),
        b: case.ghex("b_hex"),
        limit: case.gu("limit") as usize,
        cuts_a: case.garr("cuts_a").iter().filter_map(|c| c.as_u64()).map(|c| c as usize).collect(),
        cuts_b: case.garr("cuts_b").iter().filter_map(|c| c.as_u64()).map(|c| c as usize).collect(),
        fd_seg: if fd_seg < 0 { usize::MAX } else { fd_seg as usize },
        nfds: case.gu("nfds") as usize,
        what: case.gs("what"),
    };
    println!("prefix A: {}\ncontinuation B: {}\ncuts_a={:?} cuts_b={:?}", show(&c.a), show(&c.b), c.cuts_a, c.cuts_b);
    ctx.only_case = None;
    exec(ctx, &c);
}
