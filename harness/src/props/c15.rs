//! C15 — header rules: case-insensitive names, trimmed values, tolerant vs fatal faults.
//!
//! Monitor: the reference header rules M2 against Headers::try_from (block), parse_header_line
//! (line by line on a second Headers) and Encoding::try_from on generated blocks.
use micro_http::{Encoding, Headers, HttpHeaderError, RequestError};

use crate::conn::{ek, guarded, media_code};
use crate::model::{accept_encoding_verdict, header_line, HdrState, LineVerdict};
use crate::util::{show, Fp, Rng, J};
use crate::Ctx;

const NAMES: [&str; 7] = ["Content-Length", "Content-Type", "Expect", "Transfer-Encoding", "Server", "Accept", "Accept-Encoding"];
const PADS: [&str; 8] = ["", " ", "  ", "\t", " \t ", "\u{a0}", "\u{2003}", "\u{a0} \u{2003}"];

fn values_for(name: &str) -> &'static [&'static str] {
    match name {
        "Content-Length" => &["0", "1", "7", "007", "4294967295", "4294967296", "-1", "", "12a", "1 2", "0x10", "99999999999999999999", "1.0", "٣"],
        "Content-Type" | "Accept" => &["application/json", "text/plain", "text/html", "", "*/*", "Application/Json", "application/json; charset=utf-8", "text/plain,application/json"],
        "Expect" => &["100-continue", "100-Continue", "103-checkpoint", "", "100-continue, x"],
        "Transfer-Encoding" => &["chunked", "identity", "gzip", "Chunked", "chunked, gzip", ""],
        "Server" => &["x", "", "a: b", "\u{e9}"],
        _ => &[
            "gzip", "identity", "gzip, deflate", "identity;q=0", "*;q=0", "*;q=0, identity", "identity;q=0.5", "gzip;q=0, identity;q=0", "", " identity;q=0 ", "*;q=0,gzip",
            "identity; q=0", "IDENTITY;q=0", "x,*;q=0", "*;q=0, identity;q=0",
        ],
    }
}

fn case_pattern(name: &str, mask: u64) -> String {
    let mut bit = 0;
    name.chars()
        .map(|c| {
            if c.is_ascii_alphabetic() {
                let up = (mask >> bit) & 1 == 1;
                bit += 1;
                if up {
                    c.to_ascii_uppercase()
                } else {
                    c.to_ascii_lowercase()
                }
            } else {
                c
            }
        })
        .collect()
}

fn gen_line(rng: &mut Rng) -> Vec<u8> {
    match rng.below(20) {
        0 => b"NoColonAtAll".to_vec(),
        1 => vec![b'X', b':', b' ', 0xFF, 0xFE],
        2 => vec![0xC3, 0x28, b':', b'v'],
        3 => b":".to_vec(),
        4 => b": value".to_vec(),
        5 => b"a:b:c:d".to_vec(),
        // custom names are kept verbatim: the same name in another letter case is another entry
        6 => format!("{}-{}:{}v{}", *rng.pick(&["X-Custom", "x-custom", "X-CUSTOM", "x-Custom"]), rng.below(3), PADS[rng.below(PADS.len())], rng.below(4)).into_bytes(),
        7 => format!(" Spaced Name {}: {} ", rng.below(2), rng.below(3)).into_bytes(),
        8 => "Content\u{2003}Length: 5".as_bytes().to_vec(),
        9 => "X-\u{e9}: \u{2003}caf\u{e9}\u{a0}".as_bytes().to_vec(),
        _ => {
            let name = NAMES[rng.below(7)];
            let letters = name.chars().filter(|c| c.is_ascii_alphabetic()).count();
            let mask = match rng.below(4) {
                0 => 0,
                1 => u64::MAX,
                _ => rng.next() & ((1u64 << letters) - 1),
            };
            let vals = values_for(name);
            format!(
                "{}{}{}:{}{}{}",
                PADS[rng.below(PADS.len())],
                case_pattern(name, mask),
                PADS[rng.below(PADS.len())],
                PADS[rng.below(PADS.len())],
                vals[rng.below(vals.len())],
                PADS[rng.below(PADS.len())]
            )
            .into_bytes()
        }
    }
}

fn kind_ok(got: &RequestError, want: &crate::model::ExpErr) -> bool {
    want.admits(&ek(got))
}

fn case_json(lines: &[Vec<u8>]) -> J {
    J::obj(vec![
        ("lines_hex", J::Arr(lines.iter().map(|l| J::hexs(l)).collect())),
        ("lines_show", J::Arr(lines.iter().map(|l| J::s(&show(l))).collect())),
    ])
}

fn state_of(h: &Headers) -> HdrState {
    let mut custom: Vec<(String, String)> = h.custom_entries().iter().map(|(k, v)| (k.clone(), v.clone())).collect();
    custom.sort();
    HdrState { content_length: h.content_length(), expect: h.expect(), chunked: h.chunked(), accept: media_code(h.accept()), custom }
}

pub fn check_block(ctx: &mut Ctx, lines: &[Vec<u8>]) -> bool {
    if !ctx.begin() {
        return false;
    }
    ctx.rep.evaluations += 1;
    // ---- model fold
    let mut st = HdrState::default();
    let mut verdicts: Vec<LineVerdict> = Vec::new();
    let mut fatal: Option<(usize, crate::model::ExpErr)> = None;
    for (i, l) in lines.iter().enumerate() {
        match header_line(&mut st, l) {
            None => {
                ctx.rep.count("dont_care_blocks_skipped");
                return false;
            }
            Some(LineVerdict::Fatal(e)) => {
                verdicts.push(LineVerdict::Fatal(e.clone()));
                fatal = Some((i, e));
                break;
            }
            Some(v) => verdicts.push(v),
        }
    }
    let mut want = st.clone();
    want.custom = st.sorted_custom();
    let mut f = Fp::new();
    for l in lines {
        f = f.bytes(l);
    }
    if !lines.is_empty() {
        ctx.rep.distinct(f.0);
    }
    for v in &verdicts {
        ctx.rep.count(match v {
            LineVerdict::Ok => "lines_ok",
            LineVerdict::Ignored => "lines_unsupported_value_ignored",
            LineVerdict::Fatal(_) => "lines_fatal",
        });
    }
    let fail = |ctx: &mut Ctx, kind: &str, d: String| {
        ctx.rep.violation(&format!("C15:{}", kind), d, case_json(lines));
        true
    };
    // ---- line by line on a second Headers
    let mut h2 = Headers::default();
    for (i, l) in lines.iter().enumerate() {
        if i >= verdicts.len() {
            break;
        }
        let r = match guarded(|| h2.parse_header_line(l)) {
            Ok(r) => r,
            Err(p) => return fail(ctx, "panic", format!("parse_header_line panicked on {:?}: {}", show(l), p)),
        };
        match (&verdicts[i], &r) {
            (LineVerdict::Ok, Ok(())) => {}
            (LineVerdict::Ignored, Err(RequestError::HeaderError(HttpHeaderError::UnsupportedValue(_, _)))) => {}
            (LineVerdict::Fatal(e), Err(got)) if !matches!(got, RequestError::HeaderError(HttpHeaderError::UnsupportedValue(_, _))) => {
                if !kind_ok(got, e) {
                    return fail(ctx, "line-error-kind", format!("line {:?}: parse_header_line says {:?}, rules say {}", show(l), got, e.name()));
                }
            }
            (v, got) => {
                return fail(ctx, "line-verdict", format!("line #{} {:?}: parse_header_line returned {:?}, rules say {:?}", i, show(l), got, v));
            }
        }
    }
    if fatal.is_none() {
        let got = state_of(&h2);
        if got != want {
            return fail(ctx, "line-by-line-state", format!("after all lines: parse_header_line state {:?}, rules say {:?}", got, want));
        }
    }
    // ---- the block parser
    let mut block = Vec::new();
    for l in lines {
        block.extend_from_slice(l);
        block.extend_from_slice(b"\r\n");
    }
    block.extend_from_slice(b"\r\n");
    let rb = match guarded(|| Headers::try_from(&block)) {
        Ok(r) => r,
        Err(p) => return fail(ctx, "panic", format!("Headers::try_from panicked: {}", p)),
    };
    let block_non_utf8 = std::str::from_utf8(&block).is_err();
    match (&fatal, &rb) {
        (None, Ok(h)) => {
            ctx.rep.count("blocks_accepted");
            let got = state_of(h);
            if got != want {
                return fail(ctx, "block-state", format!("Headers::try_from state {:?}, rules say {:?}", got, want));
            }
        }
        (Some((i, e)), Err(got)) => {
            ctx.rep.count("blocks_rejected");
            // a block with non-UTF-8 bytes anywhere is rejected as a whole; the kind is then not the line's
            if !block_non_utf8 && !kind_ok(got, e) {
                return fail(ctx, "block-error-kind", format!("block rejected with {:?}; first fatal line is #{} with {}", got, i, e.name()));
            }
        }
        (None, Err(got)) => return fail(ctx, "block-rejected", format!("Headers::try_from rejected ({:?}) a block whose lines are all acceptable", got)),
        (Some((i, e)), Ok(_)) => {
            return fail(ctx, "block-accepted", format!("Headers::try_from accepted a block whose line #{} is fatal ({})", i, e.name()));
        }
    }
    // ---- the block ends at its first empty line: whatever follows it (a body, another request) is not
    // part of it, so appending text after the terminator must change nothing
    if !block_non_utf8 {
        const TAILS: [&[u8]; 8] = [
            b"Content-Length: 9\r\n",
            b"nocolon\r\n",
            b"Accept-Encoding: identity;q=0\r\n\r\n",
            b"X-Tail: 1\r\nX-Tail2: 2\r\n\r\n",
            b"Expect: 100-continue\r\n",
            b"Transfer-Encoding: chunked\r\nAccept: text/plain\r\n",
            b"Content-Length: x\r\n",
            b"GET / HTTP/1.1\r\nContent-Length: 3\r\n\r\nabc",
        ];
        let tail = TAILS[(f.0 % TAILS.len() as u64) as usize];
        let mut block2 = block.clone();
        block2.extend_from_slice(tail);
        let rb2 = match guarded(|| Headers::try_from(&block2)) {
            Ok(r) => r,
            Err(p) => return fail(ctx, "panic", format!("Headers::try_from panicked on the block followed by {:?}: {}", show(tail), p)),
        };
        ctx.rep.count("blocks_reparsed_with_text_after_the_terminator");
        let same = match (&rb, &rb2) {
            (Ok(a), Ok(b)) => state_of(a) == state_of(b),
            (Err(a), Err(b)) => ek(a) == ek(b),
            _ => false,
        };
        if !same {
            return fail(
                ctx,
                "block-reads-past-its-terminator",
                format!("Headers::try_from gives {:?} for the block and {:?} when {:?} follows its empty line", rb.as_ref().map(state_of).map_err(|e| format!("{:?}", e)), rb2.as_ref().map(state_of).map_err(|e| format!("{:?}", e)), show(tail)),
            );
        }
    }
    false
}

fn check_encoding(ctx: &mut Ctx, v: &[u8]) -> bool {
    if !ctx.begin() {
        return false;
    }
    ctx.rep.evaluations += 1;
    ctx.rep.count("encoding_values");
    let got = match guarded(|| Encoding::try_from(v)) {
        Ok(g) => g,
        Err(p) => {
            ctx.rep.violation("C15:panic", format!("Encoding::try_from panicked: {}", p), J::obj(vec![("encoding_hex", J::hexs(v))]));
            return true;
        }
    };
    let want = match std::str::from_utf8(v) {
        Ok(s) => accept_encoding_verdict(s),
        Err(_) => Err(crate::model::ExpErr::AnyHeader("InvalidUtf8String")),
    };
    let ok = match (&got, &want) {
        (Ok(()), Ok(())) => true,
        (Err(g), Err(w)) => w.admits(&ek(g)),
        _ => false,
    };
    if !ok {
        ctx.rep.violation(
            "C15:encoding",
            format!("Encoding::try_from({:?}) = {:?}, rules say {:?}", show(v), got, want.as_ref().map_err(|e| e.name())),
            J::obj(vec![("encoding_hex", J::hexs(v)), ("encoding_show", J::s(&show(v)))]),
        );
        return true;
    }
    false
}

pub fn run(ctx: &mut Ctx) {
    let mut bad = 0;
    // ---- every recognised name in every letter-case pattern (<= 6 letters) or 256 sampled ones
    let mut idx = 0u64;
    for name in NAMES {
        let letters = name.chars().filter(|c| c.is_ascii_alphabetic()).count();
        let masks: Vec<u64> = if letters <= 6 {
            (0..(1u64 << letters)).collect()
        } else {
            let mut r = ctx.item_rng(0xC15, letters as u64);
            let mut v: Vec<u64> = (0..254).map(|_| r.next() & ((1u64 << letters) - 1)).collect();
            v.push(0);
            v.push((1u64 << letters) - 1);
            v
        };
        for mask in masks {
            for (vi, val) in values_for(name).iter().enumerate() {
                idx += 1;
                if !ctx.mine(idx) {
                    continue;
                }
                let pad = PADS[(idx as usize) % PADS.len()];
                let pad2 = PADS[(idx as usize / 8 + vi) % PADS.len()];
                let line = format!("{}{}{}:{}{}{}", pad2, case_pattern(name, mask), pad, pad, val, pad2).into_bytes();
                ctx.rep.count("case_pattern_lines");
                if check_block(ctx, &[line]) {
                    bad += 1;
                    if bad > 20 {
                        return;
                    }
                }
            }
        }
    }
    // ---- random blocks of 0..6 lines
    let n = ctx.budget(400_000, 120_000_000) / ctx.nshards;
    let mut rng = ctx.rng.fork(0xC15);
    for i in 0..n {
        let k = rng.below(7);
        let lines: Vec<Vec<u8>> = (0..k).map(|_| gen_line(&mut rng)).collect();
        if ctx.rep.samples.len() < 5 && i % 1000 == 7 {
            ctx.rep.sample(case_json(&lines));
        }
        ctx.rep.count("random_blocks");
        if check_block(ctx, &lines) {
            bad += 1;
            if bad > 20 {
                return;
            }
        }
    }
    // ---- long blocks: 90..260 lines with distinct custom names, then repetitions of early and late names and a
    // few recognised fields: every field is kept, the last occurrence wins, whatever the count
    if ctx.shard == 1 % ctx.nshards {
        for n in [90usize, 99, 100, 101, 102, 128, 200, 256, 260] {
            let mut lines: Vec<Vec<u8>> = (0..n).map(|i| format!("X-Field-{}: v{}", i, i).into_bytes()).collect();
            lines.push(b"X-Field-0: again".to_vec());
            lines.push(format!("X-Field-{}: again", n - 1).into_bytes());
            lines.push(b"X-Late: 1".to_vec());
            lines.push(b"Content-Length: 7".to_vec());
            lines.push(b"X-Late: 2".to_vec());
            ctx.rep.count("long_blocks");
            if check_block(ctx, &lines) {
                bad += 1;
            }
        }
    }
    // ---- Encoding::try_from directly
    if ctx.shard == 0 {
        for v in values_for("Accept-Encoding") {
            for pre in ["", " "] {
                check_encoding(ctx, format!("{}{}", pre, v).as_bytes());
            }
        }
        check_encoding(ctx, &[0xFF, b'x']);
        for _ in 0..2000 {
            let parts = ["gzip", "identity", "*;q=0", "identity;q=0", " ", ",", "deflate", "*", ";q=0", "identity;q=1"];
            let k = rng.range(1, 6);
            let s: String = (0..k).map(|_| *rng.pick(&parts)).collect::<Vec<_>>().join(*rng.pick(&[",", ", ", " ,"]));
            check_encoding(ctx, s.as_bytes());
        }
    }
}

pub fn replay(ctx: &mut Ctx, case: &J) {
    ctx.only_case = None;
    if case.get("encoding_hex").is_some() {
        check_encoding(ctx, &case.ghex("encoding_hex"));
        return;
    }
    let lines: Vec<Vec<u8>> = case.garr("lines_hex").iter().filter_map(|l| l.as_str().map(crate::util::unhex)).collect();
    for l in &lines {
        println!("line: {}", show(l));
    }
    check_block(ctx, &lines);
}
