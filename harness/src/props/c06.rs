//! C06 — queued responses reach the stream completely, once, in order, under short writes.
//!
//! Monitor: a shadow write queue (M5) updated alongside every enqueue_response / try_write call
//! on the real connection; after every call the bytes the scripted stream accepted, the return
//! value, pending_write() and the number of write calls must match the shadow. Faults per write
//! call are enumerated: accept 1 / len-1 / len / half, EINTR, EAGAIN, EPIPE, accept 0.
use std::collections::VecDeque;

use micro_http::{Body, ConnectionError, Response, StatusCode, Version};

use crate::conn::{guarded, Runner, RR};
use crate::stream::{ReadEv, WriteEv};
use crate::util::{Fp, Rng, J};
use crate::Ctx;

#[derive(Clone, Copy, Debug, PartialEq, Eq)]
pub enum Act {
    /// enqueue response number `id` (its body size class is part of the id)
    Enq(u8),
    W(WriteEv),
    /// three EINTR results queued on the stream, then one try_write
    WBurst,
    /// one try_read that receives a complete PUT with `Expect: 100-continue` (HTTP/1.<v>): the
    /// connection itself enqueues the interim response, behind whatever is already queued
    ReadExpect(u8),
    /// `clear_write_buffer()`: all pending output is discarded without touching the stream
    Clear,
    /// a try_read that finds end of input (0), nothing (EAGAIN, 1) or a read error (ECONNRESET, 2): what
    /// happens on the read half decides nothing about queued output
    ReadNothing(u8),
    /// a try_read that receives malformed input and reports a parse error: the read half starts over,
    /// queued output stays as it is
    ReadBad,
}

fn act_name(a: &Act) -> String {
    match a {
        Act::Enq(i) => format!("enq{}", i),
        Act::WBurst => "w:burst3xEINTR".into(),
        Act::ReadExpect(v) => format!("readexpect{}", v),
        Act::Clear => "clear".into(),
        Act::ReadNothing(k) => format!("readnothing{}", k),
        Act::ReadBad => "readbad".into(),
        Act::W(WriteEv::Accept(k)) => format!("w:accept{}", k),
        Act::W(WriteEv::AcceptAllBut(j)) => format!("w:len-{}", j),
        Act::W(WriteEv::AcceptHalf) => "w:half".into(),
        Act::W(WriteEv::Interrupted) => "w:EINTR".into(),
        Act::W(WriteEv::WouldBlock) => "w:EAGAIN".into(),
        Act::W(WriteEv::Err(e)) => format!("w:errno{}", e),
        Act::W(WriteEv::Zero) => "w:zero".into(),
    }
}

fn parse_act(s: &str) -> Option<Act> {
    if let Some(r) = s.strip_prefix("enq") {
        return r.parse().ok().map(Act::Enq);
    }
    if let Some(r) = s.strip_prefix("readexpect") {
        return r.parse().ok().map(Act::ReadExpect);
    }
    if s == "clear" {
        return Some(Act::Clear);
    }
    if s == "readbad" {
        return Some(Act::ReadBad);
    }
    if let Some(r) = s.strip_prefix("readnothing") {
        return r.parse().ok().map(Act::ReadNothing);
    }
    if s == "w:burst3xEINTR" {
        return Some(Act::WBurst);
    }
    let w = s.strip_prefix("w:")?;
    Some(Act::W(if let Some(k) = w.strip_prefix("accept") {
        WriteEv::Accept(k.parse().ok()?)
    } else if let Some(j) = w.strip_prefix("len-") {
        WriteEv::AcceptAllBut(j.parse().ok()?)
    } else if w == "half" {
        WriteEv::AcceptHalf
    } else if w == "EINTR" {
        WriteEv::Interrupted
    } else if w == "EAGAIN" {
        WriteEv::WouldBlock
    } else if w == "zero" {
        WriteEv::Zero
    } else if let Some(e) = w.strip_prefix("errno") {
        WriteEv::Err(e.parse().ok()?)
    } else {
        return None;
    }))
}

/// Response number `id`, with the running sequence number `seq` in its body so that every
/// enqueued response is unique. Body sizes: id%4 -> 0 (no body), small, 1.5 KiB, 8 KiB.
fn make_response(id: u8, seq: usize) -> Response {
    let codes = [StatusCode::OK, StatusCode::NoContent, StatusCode::BadRequest, StatusCode::NotFound, StatusCode::Continue];
    let v = if id & 1 == 0 { Version::Http11 } else { Version::Http10 };
    let mut r = Response::new(v, codes[(id as usize / 4) % codes.len()]);
    let size = match id % 4 {
        0 => 0,
        1 => 24,
        2 => 1500,
        _ => 8192,
    };
    if size > 0 {
        let mut b = format!("<resp id={} seq={}>", id, seq).into_bytes();
        while b.len() < size {
            b.push(b'a' + ((b.len() + seq) % 26) as u8);
        }
        r.set_body(Body::new(b));
        // a length set by hand after the body (shorter, absent, longer): whatever `write_all` makes of it is what
        // the stream must receive, byte for byte
        match seq % 7 {
            3 => r.set_content_length(Some((size / 2) as i32)),
            5 => r.set_content_length(None),
            6 => r.set_content_length(Some((size + 10) as i32)),
            _ => {}
        }
    }
    r
}

fn serialize(r: &Response) -> Vec<u8> {
    let mut v = Vec::new();
    r.write_all(&mut v).expect("write to Vec");
    v
}

fn case_json(acts: &[Act]) -> J {
    J::obj(vec![
        ("engine", J::s("scripted-stream")),
        ("actions", J::Arr(acts.iter().map(|a| J::s(&act_name(a))).collect())),
    ])
}

/// Executes the action list on a real connection with the shadow queue alongside.
pub fn exec(ctx: &mut Ctx, acts: &[Act]) -> bool {
    if !ctx.begin() {
        return false;
    }
    ctx.rep.evaluations += 1;
    let mut r = Runner::new(None);
    // shadow
    let mut queue: VecDeque<Vec<u8>> = VecDeque::new();
    let mut cur: Option<(Vec<u8>, usize)> = None;
    let mut expected_accepted: Vec<u8> = Vec::new();
    let mut seq = 0usize;
    let mut partials = 0u64;
    let mut discards = 0u64;
    let mut fault: Option<(String, String)> = None;
    for (step, a) in acts.iter().enumerate() {
        let writes_before = r.script.write_calls();
        match a {
            Act::Enq(id) => {
                seq += 1;
                let resp = make_response(*id, seq);
                queue.push_back(serialize(&resp));
                if let Err(p) = guarded(|| r.conn.enqueue_response(resp)) {
                    fault = Some(("panic".into(), format!("enqueue_response panicked: {}", p)));
                    break;
                }
                if r.script.write_calls() != writes_before {
                    fault = Some(("enqueue-wrote".into(), "enqueue_response touched the stream".into()));
                    break;
                }
            }
            Act::ReadBad => {
                let so = r.feed(ReadEv::Data(b"this is not http\r\n\r\n".to_vec(), Vec::new()));
                match &so.res {
                    RR::Panic(p) => {
                        fault = Some(("panic".into(), format!("try_read panicked: {}", p)));
                        break;
                    }
                    RR::Parse(_) => {
                        if cur.is_some() || !queue.is_empty() {
                            ctx.rep.count("parse_errors_with_output_pending");
                        }
                    }
                    _ => {
                        ctx.rep.count("readbad_not_rejected");
                        break;
                    }
                }
                r.script.clear_reads();
                if r.script.write_calls() != writes_before {
                    fault = Some(("read-wrote".into(), "try_read wrote to the stream".into()));
                    break;
                }
            }
            Act::ReadNothing(k) => {
                let ev = match k {
                    0 => ReadEv::Eof(Vec::new()),
                    1 => ReadEv::WouldBlock,
                    _ => ReadEv::Err(libc::ECONNRESET),
                };
                let so = r.feed(ev);
                if let RR::Panic(p) = &so.res {
                    fault = Some(("panic".into(), format!("try_read panicked: {}", p)));
                    break;
                }
                if cur.is_some() || !queue.is_empty() {
                    ctx.rep.count(match k {
                        0 => "end_of_input_seen_with_output_pending",
                        1 => "empty_reads_with_output_pending",
                        _ => "read_errors_with_output_pending",
                    });
                }
                if r.script.write_calls() != writes_before {
                    fault = Some(("read-wrote".into(), "try_read wrote to the stream".into()));
                    break;
                }
            }
            Act::Clear => {
                if cur.is_some() || !queue.is_empty() {
                    ctx.rep.count("explicit_discards_with_output_pending");
                    if cur.is_some() {
                        ctx.rep.count("explicit_discards_of_a_partly_written_response");
                    }
                }
                if let Err(p) = guarded(|| r.conn.clear_write_buffer()) {
                    fault = Some(("panic".into(), format!("clear_write_buffer panicked: {}", p)));
                    break;
                }
                if r.script.write_calls() != writes_before {
                    fault = Some(("clear-wrote".into(), "clear_write_buffer touched the stream".into()));
                    break;
                }
                queue.clear();
                cur = None;
            }
            Act::ReadExpect(v) => {
                let version = if *v == 0 { Version::Http10 } else { Version::Http11 };
                let req = format!("PUT /e HTTP/1.{}\r\nExpect: 100-continue\r\nContent-Length: 2\r\n\r\nab", if *v == 0 { 0 } else { 1 });
                let so = r.feed(ReadEv::Data(req.into_bytes(), Vec::new()));
                if let RR::Panic(p) = &so.res {
                    fault = Some(("panic".into(), format!("try_read panicked: {}", p)));
                    break;
                }
                if so.res == RR::Ok && so.delivered.len() == 1 {
                    ctx.rep.count("interim_responses_enqueued_by_the_connection");
                    if cur.is_some() || !queue.is_empty() {
                        ctx.rep.count("interim_responses_enqueued_behind_pending_output");
                    }
                    queue.push_back(serialize(&Response::new(version, StatusCode::Continue)));
                } else {
                    // not this property's business (C02/C13); the shadow cannot follow
                    ctx.rep.count("readexpect_not_delivered");
                    break;
                }
                if r.script.write_calls() != writes_before {
                    fault = Some(("read-wrote".into(), "try_read wrote to the stream".into()));
                    break;
                }
            }
            Act::W(_) | Act::WBurst => {
                let has_output = cur.is_some() || !queue.is_empty();
                if has_output {
                    match a {
                        Act::W(ev) => r.script.push_write(*ev),
                        _ => {
                            for _ in 0..3 {
                                r.script.push_write(WriteEv::Interrupted);
                            }
                        }
                    }
                }
                let log_before = r.script.0.borrow().write_log.len();
                let res = match guarded(|| r.conn.try_write()) {
                    Ok(x) => x,
                    Err(p) => {
                        fault = Some(("panic".into(), format!("try_write panicked: {}", p)));
                        break;
                    }
                };
                let entries: Vec<(usize, i64)> = r.script.0.borrow().write_log[log_before..].to_vec();
                if !has_output {
                    ctx.rep.count("writes_with_nothing_pending");
                    if !matches!(res, Err(ConnectionError::InvalidWrite)) || !entries.is_empty() {
                        fault = Some(("invalid-write".into(), format!("nothing pending: try_write returned {:?} and made {} stream writes", res, entries.len())));
                        break;
                    }
                } else {
                    if entries.is_empty() {
                        fault = Some(("no-write".into(), format!("output is pending but try_write ({:?}) did not write to the stream", res)));
                        break;
                    }
                    if entries.len() > 1 {
                        // not forbidden by this property (C03 judges the number of writes per call)
                        ctx.rep.count("calls_with_more_than_one_stream_write");
                    }
                    // replay what the stream saw, write by write, on the shadow queue
                    let mut discarded = false;
                    let mut last_result = 0i64;
                    for (offered, result) in entries.iter() {
                        if discarded {
                            fault = Some(("write-after-failure".into(), "the stream was written to again after it had reported a failure in the same call".into()));
                            break;
                        }
                        if cur.is_none() {
                            match queue.pop_front() {
                                Some(b) => cur = Some((b, 0)),
                                None => {
                                    fault = Some(("phantom-write".into(), format!("the stream was offered {} bytes although nothing is pending", offered)));
                                    break;
                                }
                            }
                        }
                        let (buf, sent) = cur.as_mut().unwrap();
                        let remaining = buf.len() - *sent;
                        // how much of the remainder one call offers is the implementation's business
                        // (the whole remainder today); offering nothing, or more than is unsent, is not
                        if *offered > remaining || *offered == 0 {
                            fault = Some(("offered-length".into(), format!("the stream was offered {} bytes, the unsent remainder of the head response is {}", offered, remaining)));
                            break;
                        }
                        if *offered < remaining {
                            ctx.rep.count("writes_offering_less_than_the_remainder");
                        }
                        last_result = *result;
                        if *result > 0 {
                            let n = *result as usize;
                            expected_accepted.extend_from_slice(&buf[*sent..*sent + n]);
                            *sent += n;
                            if *sent == buf.len() {
                                cur = None;
                                ctx.rep.count("responses_fully_written");
                            } else {
                                partials += 1;
                            }
                        } else if *result == -(libc::EINTR as i64) {
                            ctx.rep.count("eintr_writes");
                        } else {
                            discards += 1;
                            discarded = true;
                            cur = None;
                            queue.clear();
                        }
                    }
                    if fault.is_some() {
                        break;
                    }
                    // the return value follows the last thing the stream said
                    if discarded {
                        if !matches!(res, Err(ConnectionError::ConnectionClosed)) {
                            fault = Some(("failure-not-reported".into(), format!("stream failed (result {}) but try_write returned {:?}", last_result, res)));
                            break;
                        }
                    } else if res.is_err() {
                        let kind = if last_result == -(libc::EINTR as i64) { "eintr" } else { "accepted-but-error" };
                        fault = Some((kind.into(), format!("the stream only accepted bytes or was interrupted (last result {}), yet try_write returned {:?}; an interrupted write must change nothing", last_result, res)));
                        break;
                    }
                }
            }
        }
        // invariants after every call
        let accepted_ok = {
            let st = r.script.0.borrow();
            st.written == expected_accepted
        };
        if !accepted_ok {
            let w = r.script.written();
            let first = (0..w.len().min(expected_accepted.len())).find(|i| w[*i] != expected_accepted[*i]).unwrap_or(w.len().min(expected_accepted.len()));
            fault = Some((
                "accepted-bytes".into(),
                format!("after step {} ({}): the stream has accepted {} bytes, the shadow queue says {}; first difference at byte {}", step, act_name(a), w.len(), expected_accepted.len(), first),
            ));
            break;
        }
        let expect_pending = cur.is_some() || !queue.is_empty();
        if r.conn.pending_write() != expect_pending {
            fault = Some(("pending-write".into(), format!("after step {} ({}): pending_write()={} but unsent output {}", step, act_name(a), !expect_pending, if expect_pending { "exists" } else { "does not exist" })));
            break;
        }
    }
    ctx.rep.add("partial_writes", partials);
    ctx.rep.add("discards_after_failure", discards);
    if partials > 0 || discards > 0 {
        let mut f = Fp::new();
        for a in acts {
            f = f.s(&act_name(a));
        }
        ctx.rep.distinct(f.0);
    }
    if let Some((kind, detail)) = fault {
        ctx.rep.violation(&format!("C06:{}", kind), detail, case_json(acts));
        return true;
    }
    false
}

const ALPHABET: [Act; 11] = [
    Act::WBurst,
    Act::Enq(1),
    Act::Enq(6),
    Act::W(WriteEv::Accept(1)),
    Act::W(WriteEv::AcceptAllBut(1)),
    Act::W(WriteEv::Accept(usize::MAX)),
    Act::W(WriteEv::AcceptHalf),
    Act::W(WriteEv::Interrupted),
    Act::W(WriteEv::WouldBlock),
    Act::W(WriteEv::Err(libc::EPIPE)),
    Act::W(WriteEv::Zero),
];

pub fn run(ctx: &mut Ctx) {
    let quick = ctx.quick();
    // ---- exhaustive interleavings of enqueue and write calls with every stream behaviour
    let depth: u32 = if quick { 6 } else { 8 };
    let total = (ALPHABET.len() as u64).pow(depth);
    let base = ALPHABET.len() as u64;
    let mut violations_here = 0;
    for idx in 0..total {
        if !ctx.mine(idx) {
            continue;
        }
        let mut x = idx;
        let mut acts = Vec::with_capacity(depth as usize + 2);
        for _ in 0..depth {
            acts.push(ALPHABET[(x % base) as usize]);
            x /= base;
        }
        // finish by flushing whatever is left, so that "no byte lost" is checked to the end
        acts.push(Act::W(WriteEv::Accept(usize::MAX)));
        acts.push(Act::W(WriteEv::Accept(usize::MAX)));
        ctx.rep.count("exhaustive_sequences");
        if exec(ctx, &acts) {
            violations_here += 1;
            if violations_here > 20 {
                break;
            }
        }
        if idx == 123 + ctx.shard && ctx.rep.want_sample() {
            ctx.rep.sample(case_json(&acts));
        }
    }
    // ---- the same with output the connection enqueues itself (interim responses) in the alphabet
    const ALPHABET2: [Act; 12] = [
        Act::ReadBad,
        Act::ReadNothing(0),
        Act::ReadNothing(2),
        Act::Clear,
        Act::Enq(1),
        Act::ReadExpect(1),
        Act::ReadExpect(0),
        Act::W(WriteEv::Accept(1)),
        Act::W(WriteEv::AcceptAllBut(1)),
        Act::W(WriteEv::Accept(usize::MAX)),
        Act::W(WriteEv::Interrupted),
        Act::W(WriteEv::WouldBlock),
    ];
    let depth2: u32 = if quick { 6 } else { 7 };
    let base2 = ALPHABET2.len() as u64;
    for idx in 0..base2.pow(depth2) {
        if !ctx.mine(idx) {
            continue;
        }
        let mut x = idx;
        let mut acts = Vec::with_capacity(depth2 as usize + 3);
        for _ in 0..depth2 {
            acts.push(ALPHABET2[(x % base2) as usize]);
            x /= base2;
        }
        if !acts.iter().any(|a| matches!(a, Act::ReadExpect(_) | Act::Clear | Act::ReadNothing(_) | Act::ReadBad)) {
            continue; // covered by the first pass
        }
        for _ in 0..3 {
            acts.push(Act::W(WriteEv::Accept(usize::MAX)));
        }
        ctx.rep.count("exhaustive_sequences_with_interim_responses");
        if exec(ctx, &acts) {
            violations_here += 1;
            if violations_here > 20 {
                break;
            }
        }
    }
    // ---- every errno the stream can report (1..=133): all but EINTR are "a non-interrupt error", at the first
    // write and after a short write, with a second response queued behind
    if ctx.shard == 3 % ctx.nshards {
        for e in 1..=133i32 {
            ctx.rep.count("errno_sweep");
            exec(ctx, &[Act::Enq(1), Act::Enq(2), Act::W(WriteEv::Err(e)), Act::W(WriteEv::Accept(usize::MAX)), Act::Enq(1), Act::W(WriteEv::Accept(usize::MAX))]);
            exec(ctx, &[Act::Enq(2), Act::W(WriteEv::Accept(5)), Act::W(WriteEv::Err(e)), Act::W(WriteEv::Accept(usize::MAX)), Act::Enq(1), Act::W(WriteEv::Accept(usize::MAX)), Act::W(WriteEv::Accept(usize::MAX))]);
        }
    }
    // ---- single responses: every k in 1..len at the first and at the second write
    let mut idx = 0u64;
    for id in [0u8, 1, 2, 3, 5, 16, 17] {
        let len = serialize(&make_response(id, 1)).len();
        for k in 1..=len {
            idx += 1;
            if !ctx.mine(idx) {
                continue;
            }
            // (every k also in the quick tier: equality boundaries of the remainder, e.g. exactly 4096
            // bytes left, must not depend on luck)
            ctx.rep.count("single_response_every_k");
            exec(ctx, &[Act::Enq(id), Act::W(WriteEv::Accept(k)), Act::W(WriteEv::Accept(usize::MAX)), Act::W(WriteEv::Accept(usize::MAX))]);
            let first = 1 + (k % 5);
            exec(
                ctx,
                &[Act::Enq(id), Act::Enq(1), Act::W(WriteEv::Accept(first)), Act::W(WriteEv::Accept(k)), Act::W(WriteEv::Accept(usize::MAX)), Act::W(WriteEv::Accept(usize::MAX)), Act::W(WriteEv::Accept(usize::MAX))],
            );
        }
    }
    // ---- random long runs: 0..6 responses outstanding, bodies 0..8 KiB, long fault patterns
    let n_rand = ctx.budget(40_000, 2_000_000) / ctx.nshards;
    let mut rng: Rng = ctx.rng.fork(0xC06);
    for _ in 0..n_rand {
        let len = rng.range(5, 60);
        let mut acts = Vec::with_capacity(len);
        let mut outstanding = 0usize;
        for _ in 0..len {
            if outstanding < 6 && rng.chance(1, 3) {
                acts.push(Act::Enq(rng.below(20) as u8));
                outstanding += 1;
            } else {
                if rng.chance(1, 25) {
                    acts.push(Act::WBurst);
                    continue;
                }
                if outstanding < 6 && rng.chance(1, 12) {
                    acts.push(Act::ReadExpect(rng.below(2) as u8));
                    outstanding += 1;
                    continue;
                }
                if rng.chance(1, 30) {
                    acts.push(Act::Clear);
                    outstanding = 0;
                    continue;
                }
                if rng.chance(1, 20) {
                    acts.push(Act::ReadNothing(rng.below(3) as u8));
                    continue;
                }
                if rng.chance(1, 25) {
                    acts.push(Act::ReadBad);
                    continue;
                }
                let ev = match rng.below(14) {
                    0 => WriteEv::Interrupted,
                    1 => WriteEv::WouldBlock,
                    2 => WriteEv::Err(*rng.pick(&[libc::EPIPE, libc::ECONNRESET, libc::EIO])),
                    3 => WriteEv::Zero,
                    4 | 5 => WriteEv::Accept(usize::MAX),
                    6 => WriteEv::AcceptAllBut(rng.range(1, 3)),
                    7 => WriteEv::AcceptHalf,
                    _ => WriteEv::Accept(rng.range(1, 3000)),
                };
                acts.push(Act::W(ev));
                if matches!(ev, WriteEv::WouldBlock | WriteEv::Err(_) | WriteEv::Zero) {
                    outstanding = 0;
                }
            }
        }
        for _ in 0..8 {
            acts.push(Act::W(WriteEv::Accept(usize::MAX)));
        }
        ctx.rep.count("random_sequences");
        if ctx.rep.samples.len() < 3 {
            ctx.rep.sample(case_json(&acts));
        }
        exec(ctx, &acts);
    }
}

pub fn replay(ctx: &mut Ctx, case: &J) {
    let acts: Vec<Act> = case.garr("actions").iter().filter_map(|a| a.as_str().and_then(parse_act)).collect();
    println!("actions: {:?}", acts.iter().map(act_name).collect::<Vec<_>>());
    ctx.only_case = None;
    exec(ctx, &acts);
}
