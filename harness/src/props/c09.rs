//! C09 — no client can wedge the server or starve other clients.
//!
//! Monitor: a witness client performs request/response round trips between the actions of
//! hostile clients (valid / invalid / partial input, oversize declarations, shutdown of either
//! direction, abrupt close, never reading while large responses are owed) and arbitrary delays of
//! the application's answers to them. Oracles: requests() always returns Ok; every witness round
//! trip completes within a fixed number of polling calls; once a hostile client has closed and
//! everything yielded from it has been answered, its server-side socket disappears within two
//! polling calls (observed through getpeername on the process's sockets).
use std::collections::HashMap;

use crate::hist::{self, Act, Applied, HistoryProp, Piece, Size};
use crate::sim::{PollOut, Sim};
use crate::util::{Rng, J};
use crate::Ctx;

pub struct P09 {
    pub hostile: usize,
    pub max_sends: usize,
    pub sizes: Vec<Size>,
    pub all_pieces: bool,
    /// the application also flushes at arbitrary moments, answers in `enqueue_responses` batches and
    /// changes the payload limit while connections exist
    pub app_extras: bool,
    /// polls seen since a generation became "closed and fully answered"
    due: HashMap<usize, usize>,
    trips: u64,
}

impl P09 {
    pub fn new(hostile: usize, max_sends: usize) -> Self {
        P09 { hostile, max_sends, sizes: vec![Size::Small], all_pieces: false, app_extras: false, due: HashMap::new(), trips: 0 }
    }

    /// generations whose server side must be released: client fully closed, nothing owed
    fn must_be_reaped(sim: &Sim) -> Vec<usize> {
        (0..sim.gens.len())
            .filter(|gi| {
                let g = &sim.gens[*gi];
                // either the client is gone, or it shut down reading and the application supplied a
                // response afterwards (the write of that response can only fail): it can no longer be written to
                // (observable by the server only if its socket is writable, i.e. the write is actually attempted)
                let attempted_after_shutdown = g.shut_rd_step.map(|s| g.supplied_steps.iter().any(|t| *t > s)).unwrap_or(false)
                    && sim.server_side_sockets().iter().filter(|(_, x)| *x == Some(*gi)).all(|(fd, _)| {
                        let mut p = libc::pollfd { fd: *fd, events: libc::POLLOUT, revents: 0 };
                        // SAFETY: zero-timeout poll on one descriptor of this process.
                        unsafe { libc::poll(&mut p, 1, 0) > 0 && (p.revents & libc::POLLOUT) != 0 }
                    });
                let unwritable = g.client_closed || attempted_after_shutdown;
                unwritable && !sim.owed(g) && !sim.outstanding.iter().any(|o| o.gen_idx == Some(*gi))
            })
            .collect()
    }

    fn reap_check(&mut self, ctx: &mut Ctx, sim: &mut Sim, polled: bool) -> Option<(String, String)> {
        let socks = sim.observe_admissions();
        let must = Self::must_be_reaped(sim);
        self.due.retain(|gi, _| must.contains(gi));
        for gi in must {
            let present = socks.iter().any(|(_, g)| *g == Some(gi));
            if !present {
                if self.due.remove(&gi).is_some() {
                    ctx.rep.count("dead_connections_reaped");
                }
                continue;
            }
            let n = self.due.entry(gi).or_insert(0);
            if polled {
                *n += 1;
            }
            if *n > 2 {
                let g = &sim.gens[gi];
                return Some((
                    "dead-connection-not-released".into(),
                    format!("c{}g{} can no longer be written to (closed at step {:?}, shutdown(RD) at step {:?}) and all {} requests yielded from it are answered, but its server-side socket is still open after {} further polling calls", g.client, g.gen, g.close_step, g.shut_rd_step, g.yielded.len(), *n),
                ));
            }
        }
        None
    }
}

impl HistoryProp for P09 {
    fn new_sim(&mut self, _ctx: &mut Ctx) -> Option<Sim> {
        self.due.clear();
        let mut sim = Sim::new(false, None).ok()?;
        // the witness is connected and accepted before the history starts
        sim.connect(0);
        sim.poll();
        Some(sim)
    }

    fn enabled(&self, sim: &Sim) -> Vec<Act> {
        let mut v = vec![Act::RoundTrip(0)];
        for c in 1..=self.hostile {
            let ever = sim.gens.iter().any(|g| g.client == c);
            match sim.gen_of(c) {
                None => {
                    if sim.gens.iter().filter(|g| g.client == c).count() < 2 {
                        v.push(Act::Connect(c));
                    }
                }
                Some(gi) => {
                    let g = &sim.gens[gi];
                    if !g.shut_wr && !g.send_failed && g.sends < self.max_sends {
                        if g.pending_rest.is_some() {
                            v.push(Act::Send(c, Piece::Rest));
                        } else {
                            v.push(Act::Send(c, Piece::Get));
                            v.push(Act::Send(c, Piece::Two));
                            v.push(Act::Send(c, Piece::Bad));
                            v.push(Act::Send(c, Piece::Head));
                            v.push(Act::Send(c, Piece::Oversize));
                            if self.all_pieces {
                                for p in [Piece::Put, Piece::Big, Piece::Expect, Piece::GetExpect, Piece::Garbage] {
                                    v.push(Act::Send(c, p));
                                }
                            }
                        }
                    }
                    v.push(Act::Close(c));
                    if !g.shut_rd {
                        v.push(Act::ShutRd(c));
                    }
                    if !g.shut_wr {
                        v.push(Act::ShutWr(c));
                    }
                }
            }
            if !ever {
                break;
            }
        }
        if sim.ready() {
            v.push(Act::Poll);
        }
        for (i, o) in sim.outstanding.iter().enumerate() {
            let hostile = o.gen_idx.map(|gi| sim.gens[gi].client != 0).unwrap_or(true);
            if hostile {
                for s in &self.sizes {
                    v.push(Act::Respond(i, *s));
                }
            }
        }
        if self.app_extras {
            v.push(Act::Flush);
            if sim.outstanding.len() >= 2 {
                v.push(Act::RespondBatch(2 + sim.step as u64 * 7919, self.sizes[sim.step % self.sizes.len()]));
            }
            v.push(Act::SetLimit(if sim.step % 2 == 0 { 4 } else { 51200 }));
        }
        v
    }

    fn after(&mut self, ctx: &mut Ctx, sim: &mut Sim, act: &Act, applied: &Applied) -> Option<(String, String)> {
        if let Some((step, e)) = sim.api_errors.first() {
            return Some(("polling-failed".into(), format!("at step {}: {}", step, e)));
        }
        if let Some(d) = sim.idle_with_releasable_connection() {
            return Some(("dead-connection-not-released".into(), d));
        }
        match (act, applied) {
            (Act::RoundTrip(_), Applied::Trip(r)) => {
                self.trips += 1;
                match r {
                    Ok(n) => {
                        ctx.rep.count("witness_round_trips_completed");
                        ctx.rep.max("max_polls_in_one_round_trip", *n as u64);
                        // classify the hostile situation the round trip went through (evidence)
                        if sim.gens.iter().any(|g| g.client != 0 && g.client_closed && sim.owed(g)) {
                            ctx.rep.count("round_trips_while_a_dead_connection_is_owed_answers");
                        }
                        if sim.gens.iter().any(|g| g.client != 0 && g.shut_rd && !g.client_closed) {
                            ctx.rep.count("round_trips_while_a_client_has_shut_down_reading");
                        }
                        if sim.gens.iter().any(|g| g.client != 0 && !g.client_closed && g.supplied.iter().any(|(_, n)| *n >= 1 << 20) && g.recv.is_empty()) {
                            ctx.rep.count("round_trips_while_a_client_ignores_a_large_response");
                        }
                        self.reap_check(ctx, sim, true)
                    }
                    Err(e) => Some(("witness-starved".into(), format!("witness round trip #{} did not complete: {}", self.trips, e))),
                }
            }
            (Act::Poll, Applied::Poll(p)) => {
                if let PollOut::Shutdown = p {
                    return Some(("polling-failed".into(), "ShutdownEvent without a kill switch".into()));
                }
                self.reap_check(ctx, sim, true)
            }
            _ => self.reap_check(ctx, sim, false),
        }
    }

    fn finish(&mut self, ctx: &mut Ctx, sim: &mut Sim) -> Option<(String, String)> {
        // the witness must still be served at the end
        match sim.round_trip(0, 16) {
            Ok(_) => ctx.rep.count("witness_round_trips_completed"),
            Err(e) => {
                if let Some((step, e)) = sim.api_errors.first() {
                    return Some(("polling-failed".into(), format!("at step {}: {}", step, e)));
                }
                return Some(("witness-starved".into(), format!("final witness round trip did not complete: {}", e)));
            }
        }
        // answer everything still owed, give the server two polls per dead connection, then
        // every closed client's socket must be gone
        while !sim.outstanding.is_empty() {
            sim.respond(0, 0);
        }
        for _ in 0..6 {
            if sim.poll() == PollOut::Idle {
                break;
            }
            if let Some(v) = self.reap_check(ctx, sim, true) {
                return Some(v);
            }
        }
        if let Some((step, e)) = sim.api_errors.first() {
            return Some(("polling-failed".into(), format!("at step {}: {}", step, e)));
        }
        let socks = sim.observe_admissions();
        for gi in Self::must_be_reaped(sim) {
            if socks.iter().any(|(_, g)| *g == Some(gi)) {
                let g = &sim.gens[gi];
                return Some(("dead-connection-not-released".into(), format!("at the end c{}g{} (closed, all {} yielded requests answered) still has a server-side socket", g.client, g.gen, g.yielded.len())));
            }
        }
        ctx.rep.add("hostile_requests_yielded", sim.gens.iter().filter(|g| g.client != 0).map(|g| g.yielded.len() as u64).sum());
        None
    }

    fn nontrivial(&self, sim: &Sim) -> bool {
        sim.gens.iter().any(|g| g.client != 0 && (g.client_closed || g.shut_rd || g.shut_wr || g.sends > 0))
    }
}

fn choose(rng: &mut Rng, sim: &Sim, en: &[Act]) -> Option<Act> {
    if en.is_empty() {
        return None;
    }
    let w: Vec<usize> = en
        .iter()
        .map(|a| match a {
            Act::RoundTrip(_) => 5,
            Act::Poll => 8,
            Act::Connect(_) => 4,
            Act::Send(_, Piece::Two) | Act::Send(_, Piece::Get) => 5,
            Act::Send(_, _) => 2,
            Act::ShutRd(c) => {
                // shutting down reading while answers are owed is the dangerous conjunction
                let owed = sim.gen_of(*c).map(|gi| sim.owed(&sim.gens[gi])).unwrap_or(false);
                if owed {
                    8
                } else {
                    1
                }
            }
            Act::ShutWr(_) => 1,
            Act::Close(c) => {
                let owed = sim.gen_of(*c).map(|gi| sim.owed(&sim.gens[gi])).unwrap_or(false);
                if owed {
                    5
                } else {
                    1
                }
            }
            Act::Respond(_, Size::Large) => 2,
            Act::Respond(_, _) => 4,
            Act::Flush => 3,
            Act::RespondBatch(_, _) => 3,
            _ => 1,
        })
        .collect();
    let total: usize = w.iter().sum();
    let mut x = rng.below(total);
    for (i, wi) in w.iter().enumerate() {
        if x < *wi {
            return Some(en[i].clone());
        }
        x -= wi;
    }
    None
}

/// Deep pipelines: one client has 70..120 requests with the application (yielded, unanswered) while the witness
/// does round trips; then everything is answered, in one batch or one by one, and every answer arrives.
fn deep_pipeline_family(ctx: &mut Ctx, n: u64) {
    let mut rng = ctx.rng.fork(0xDEE9);
    for _ in 0..n {
        ctx.begin();
        ctx.rep.evaluations += 1;
        ctx.rep.count("histories_deep_pipeline");
        let mut p = P09::new(3, 40);
        let mut acts: Vec<Act> = vec![Act::Connect(1), Act::Poll];
        let bursts = rng.range(8, 13);
        for b in 0..bursts {
            acts.push(Act::Send(1, Piece::Many));
            if b % 2 == 1 || rng.chance(1, 2) {
                acts.push(Act::Poll);
            }
            if b == bursts / 2 {
                acts.push(Act::RoundTrip(0));
            }
        }
        acts.push(Act::Poll);
        acts.push(Act::Poll);
        acts.push(Act::RoundTrip(0));
        if rng.chance(1, 2) {
            acts.push(Act::RespondBatch(rng.below(3) as u64, Size::Small));
        } else {
            acts.push(Act::RespondAll(Size::Small));
        }
        for _ in 0..6 {
            acts.push(Act::Poll);
            acts.push(Act::Drain(1));
        }
        acts.push(Act::RoundTrip(0));
        let out = hist::run_history(ctx, &mut p, &acts, true, false);
        let mut verdict = out.violation;
        if verdict.is_none() {
            ctx.rep.max("max_requests_in_flight_on_one_connection", (bursts * 9) as u64);
        }
        if let Some((k, d)) = verdict.take() {
            ctx.rep.violation(&format!("C09:{}", k), d, hist::history_json(&acts, vec![]));
            return;
        }
    }
}

/// A talkative client: a second thread keeps one client's socket filled with acceptable bytes (a request
/// whose header section never ends) while the witness wants a round trip. The work one polling call does for
/// one client must stay bounded: the verdict is taken on logical steps (the hook's step budget of 40000 state
/// machine iterations per call; one read of one buffer needs about a hundred), never on wall-clock time.
/// If the sender cannot keep up, the case just proves less.
fn talkative_client_family(ctx: &mut Ctx, n: u64) {
    use std::io::Write;
    use std::sync::atomic::{AtomicBool, AtomicU64, Ordering};
    use std::sync::Arc;
    for i in 0..n {
        ctx.begin();
        ctx.rep.evaluations += 1;
        ctx.rep.count("histories_talkative_client");
        let mut p = P09::new(2, 4);
        let mut sim = match p.new_sim(ctx) {
            Some(s) => s,
            None => return,
        };
        sim.connect(1);
        sim.poll();
        let gi = match sim.gen_of(1) {
            Some(g) => g,
            None => continue,
        };
        let mut talker = match sim.gens[gi].stream.as_ref().and_then(|s| s.try_clone().ok()) {
            Some(t) => t,
            None => continue,
        };
        let stop = Arc::new(AtomicBool::new(false));
        let sent = Arc::new(AtomicU64::new(0));
        let (stop2, sent2) = (stop.clone(), sent.clone());
        let lines_per_chunk = 4096;
        let handle = std::thread::spawn(move || {
            let mut chunk = Vec::with_capacity(lines_per_chunk * 11);
            for _ in 0..lines_per_chunk {
                chunk.extend_from_slice(b"Server: x\r\n");
            }
            let _ = talker.write_all(b"GET /talk HTTP/1.1\r\n");
            let started = std::time::Instant::now();
            let mut off = 0usize;
            // bounded: at most 1.5 s or 256 MiB
            while !stop2.load(Ordering::Relaxed) && started.elapsed().as_millis() < 1500 && sent2.load(Ordering::Relaxed) < (256 << 20) {
                match talker.write(&chunk[off..]) {
                    Ok(k) => {
                        sent2.fetch_add(k as u64, Ordering::Relaxed);
                        // keep line alignment across partial writes
                        off = (off + k) % chunk.len();
                    }
                    Err(ref e) if e.kind() == std::io::ErrorKind::WouldBlock => std::thread::yield_now(),
                    Err(_) => break,
                }
            }
        });
        // the application meanwhile: poll on readiness, and a witness round trip
        let mut verdict: Option<(String, String)> = None;
        let mut trips = 0;
        for _ in 0..(3 + i % 3) {
            match sim.round_trip(0, 400) {
                Ok(_) => trips += 1,
                Err(e) => {
                    verdict = Some(("witness-starved".into(), format!("while another client keeps sending acceptable bytes: {}", e)));
                    break;
                }
            }
            if !sim.api_errors.is_empty() {
                break;
            }
        }
        stop.store(true, Ordering::Relaxed);
        let _ = handle.join();
        ctx.rep.add("talkative_client_bytes_sent", sent.load(Ordering::Relaxed));
        ctx.rep.add("witness_round_trips_next_to_a_talkative_client", trips);
        if let Some((step, e)) = sim.api_errors.first() {
            verdict = Some(("polling-failed".into(), format!("at step {} while another client keeps sending acceptable bytes: {}", step, e)));
        }
        if let Some((k, d)) = verdict {
            ctx.rep.violation(&format!("C09:{}", k), d, J::obj(vec![("engine", J::s("server-simulator")), ("family", J::s("talkative-client")), ("note", J::s("a second thread sends `Server: x` header lines without end on client 1 while client 0 does round trips"))]));
            return;
        }
    }
}

/// Capacity variant: the server is full, an 11th client connects and disappears before the
/// server polls; the witness and the other connections must not notice.
fn vanishing_client_family(ctx: &mut Ctx, n: u64) {
    let mut rng = ctx.rng.fork(0xD4);
    for _ in 0..n {
        ctx.begin();
        ctx.rep.evaluations += 1;
        ctx.rep.count("histories_vanishing_refused_client");
        let mut p = P09::new(11, 4);
        let mut sim = match p.new_sim(ctx) {
            Some(s) => s,
            None => return,
        };
        let mut acts: Vec<Act> = Vec::new();
        let fill = 9; // witness + 9 = 10 connections
        let mut violation = None;
        let mut step = |p: &mut P09, ctx: &mut Ctx, sim: &mut Sim, acts: &mut Vec<Act>, a: Act| -> Option<(String, String)> {
            let ap = hist::apply(sim, &a);
            if ap == Applied::Skipped {
                return None;
            }
            acts.push(a.clone());
            p.after(ctx, sim, &a, &ap)
        };
        'h: {
            for c in 1..=fill {
                if let Some(v) = step(&mut p, ctx, &mut sim, &mut acts, Act::Connect(c)) {
                    violation = Some(v);
                    break 'h;
                }
                if rng.chance(2, 3) {
                    if let Some(v) = step(&mut p, ctx, &mut sim, &mut acts, Act::Poll) {
                        violation = Some(v);
                        break 'h;
                    }
                }
            }
            for _ in 0..12 {
                if let Some(v) = step(&mut p, ctx, &mut sim, &mut acts, Act::Poll) {
                    violation = Some(v);
                    break 'h;
                }
            }
            // some of the ten have input waiting when the 11th comes and goes
            for c in 1..=fill {
                if rng.chance(1, 3) {
                    let piece = *rng.pick(&[Piece::Get, Piece::Two, Piece::Head]);
                    if let Some(v) = step(&mut p, ctx, &mut sim, &mut acts, Act::Send(c, piece)) {
                        violation = Some(v);
                        break 'h;
                    }
                }
            }
            let extra = rng.range(1, 2);
            for k in 0..extra {
                let _ = step(&mut p, ctx, &mut sim, &mut acts, Act::Connect(10 + k));
                if rng.chance(3, 4) {
                    let _ = step(&mut p, ctx, &mut sim, &mut acts, Act::Close(10 + k));
                }
            }
            for _ in 0..rng.range(1, 4) {
                if let Some(v) = step(&mut p, ctx, &mut sim, &mut acts, Act::Poll) {
                    violation = Some(v);
                    break 'h;
                }
            }
            if let Some(v) = step(&mut p, ctx, &mut sim, &mut acts, Act::RoundTrip(0)) {
                violation = Some(v);
                break 'h;
            }
            violation = p.finish(ctx, &mut sim);
            // requests sent by the ten before the refusal must all have been yielded
            if violation.is_none() {
                for g in &sim.gens {
                    for t in g.completed.iter().filter(|t| !t.starts_with('?')) {
                        if !g.yielded.contains(t) && !g.client_closed {
                            violation = Some(("request-lost-around-refusal".into(), format!("c{}g{} sent {} before the refused client came and went; it was never yielded", g.client, g.gen, t)));
                        }
                    }
                }
            }
        }
        ctx.rep.distinct(hist::fingerprint(&acts));
        if let Some((k, d)) = violation {
            ctx.rep.violation(&format!("C09:{}", k), d, hist::history_json(&acts, vec![("family", J::s("vanishing"))]));
            if ctx.rep.violations_total > 30 {
                return;
            }
        }
    }
}

/// Capacity churn: the server is full (witness + 9), some clients close or shut down while
/// requests yielded from them are unanswered, further clients queue up on the listener, the
/// application answers late, all in random order; afterwards every accepted newcomer must be served.
fn capacity_churn_family(ctx: &mut Ctx, n: u64) {
    let mut rng = ctx.rng.fork(0xCA9);
    for _ in 0..n {
        ctx.begin();
        ctx.rep.evaluations += 1;
        ctx.rep.count("histories_capacity_churn");
        let mut p = P09::new(13, 6);
        let mut sim = match p.new_sim(ctx) {
            Some(s) => s,
            None => return,
        };
        let mut acts: Vec<Act> = Vec::new();
        let mut violation: Option<(String, String)> = None;
        let mut plan: Vec<Act> = Vec::new();
        for c in 1..=9 {
            plan.push(Act::Connect(c));
            plan.push(Act::Poll);
        }
        for c in 1..=9 {
            if rng.chance(2, 3) {
                plan.push(Act::Send(c, if rng.chance(1, 3) { Piece::Two } else { Piece::Get }));
            }
        }
        for _ in 0..rng.range(1, 3) {
            plan.push(Act::Poll);
        }
        // the churn, shuffled
        let mut churn: Vec<Act> = Vec::new();
        for _ in 0..rng.range(1, 4) {
            let c = rng.range(1, 9);
            churn.push(if rng.chance(1, 4) { Act::ShutWr(c) } else { Act::Close(c) });
        }
        for k in 0..rng.range(1, 3) {
            churn.push(Act::Connect(10 + k));
        }
        for _ in 0..rng.range(1, 5) {
            churn.push(Act::Poll);
        }
        for _ in 0..rng.range(1, 4) {
            churn.push(Act::Respond(rng.below(4), Size::Small));
        }
        churn.push(Act::RoundTrip(0));
        for i in (1..churn.len()).rev() {
            let j = rng.below(i + 1);
            churn.swap(i, j);
        }
        plan.extend(churn);
        plan.push(Act::RespondAll(Size::Small));
        for _ in 0..4 {
            plan.push(Act::Poll);
        }
        for a in plan {
            let ap = hist::apply(&mut sim, &a);
            if ap == Applied::Skipped {
                continue;
            }
            acts.push(a.clone());
            if let Some(v) = p.after(ctx, &mut sim, &a, &ap) {
                violation = Some(v);
                break;
            }
        }
        if violation.is_none() {
            // every newcomer that the server took on and that is still open must be served
            sim.observe_admissions();
            let newcomers: Vec<usize> = (0..sim.gens.len()).filter(|gi| sim.gens[*gi].client >= 10 && sim.gens[*gi].admission == crate::sim::Admission::Accepted && !sim.gens[*gi].client_closed).collect();
            for gi in newcomers {
                sim.send_request(gi, crate::sim::ReqKind::Get);
                let tag = sim.gens[gi].completed.last().cloned().unwrap_or_default();
                let mut yielded = false;
                for _ in 0..8 {
                    if sim.gens[gi].yielded.contains(&tag) {
                        yielded = true;
                        break;
                    }
                    if sim.poll() == PollOut::Idle {
                        break;
                    }
                }
                yielded |= sim.gens[gi].yielded.contains(&tag);
                sim.drain(gi, 0);
                if !yielded {
                    let g = &sim.gens[gi];
                    violation = Some((
                        "innocent-client-not-served".into(),
                        format!("c{}g{} was accepted while others misbehaved, sent {} and it was never yielded (EOF seen: {}, read error: {:?}, send failed: {})", g.client, g.gen, tag, g.eof_seen, g.read_err, g.send_failed),
                    ));
                    break;
                }
                ctx.rep.count("newcomers_served_after_churn");
            }
        }
        if violation.is_none() {
            violation = p.finish(ctx, &mut sim);
        }
        ctx.rep.distinct(hist::fingerprint(&acts));
        if let Some((k, d)) = violation {
            ctx.rep.violation(&format!("C09:{}", k), d, hist::history_json(&acts, vec![("family", J::s("capacity-churn"))]));
            if ctx.rep.violations_total > 30 {
                return;
            }
        }
    }
}

pub fn run(ctx: &mut Ctx) {
    let quick = ctx.quick();
    let mut p = P09::new(if quick { 1 } else { 2 }, 3);
    hist::dfs(ctx, &mut p, if quick { 6 } else { 8 }, 3, "C09", 12);
    let mut p = P09::new(3, 5);
    p.sizes = vec![Size::Small, Size::Large];
    let n = ctx.budget(12_000, 600_000) / ctx.nshards;
    hist::random_histories(ctx, &mut p, n, 15, 70, "C09", &mut choose);
    let mut p = P09::new(3, 6);
    p.sizes = vec![Size::Small, Size::Medium, Size::Large];
    p.all_pieces = true;
    hist::random_histories(ctx, &mut p, n / 2 + 1, 15, 90, "C09", &mut choose);
    let mut p = P09::new(3, 6);
    p.sizes = vec![Size::Small, Size::Medium, Size::Large];
    p.all_pieces = true;
    p.app_extras = true;
    hist::random_histories(ctx, &mut p, n / 2 + 1, 15, 90, "C09", &mut choose);
    vanishing_client_family(ctx, ctx.budget(1_600, 60_000) / ctx.nshards);
    deep_pipeline_family(ctx, ctx.budget(8, 200) / 4 + 1);
    if ctx.shard % 4 == 0 {
        // (on a quarter of the shards: the sender thread needs a core of its own to be of any use)
        talkative_client_family(ctx, ctx.budget(6, 60));
    }
    capacity_churn_family(ctx, ctx.budget(3_200, 120_000) / ctx.nshards);
    if ctx.rep.samples.is_empty() {
        ctx.rep.sample(J::s("no sample"));
    }
}

pub fn replay(ctx: &mut Ctx, case: &J) {
    if case.gs("family") == "talkative-client" {
        ctx.only_case = None;
        talkative_client_family(ctx, 6);
        return;
    }
    let mut p = P09::new(11, 8);
    p.all_pieces = true;
    p.app_extras = true;
    p.sizes = vec![Size::Small, Size::Large];
    hist::replay_history(ctx, &mut p, case, "C09");
}
