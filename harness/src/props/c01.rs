//! C01 — delivered requests depend only on the byte stream, not on how reads split it.
//!
//! Monitor: (1) confluence — every segmentation gives the outcome of the maximal-read run;
//! (2) absolute completeness — the maximal-read outcome equals what the reference grammar M1
//! says about the stream, and every delivery happens at the read that supplied its last byte;
//! (3) empty reads (EAGAIN / EINTR) return a stream-read error and change nothing.
use crate::conn::{run_stream, take_probe_cov, Gap, Outcome};
use crate::gen::{self, GenOpts, Layout, ReqSpec};
use crate::model::{m1, M1Event, M1Out};
use crate::util::{hex, show, Fp, Rng, J};
use crate::Ctx;

pub struct Plan {
    pub all_single_cuts: bool,
    pub single_cut_stride: usize,
    pub pairs: usize,       // number of 2-cut cases (usize::MAX = all pairs of interesting positions)
    pub const_sizes: Vec<usize>,
    pub random_multi: usize,
    pub gaps: Vec<Gap>,
}

fn case_json(stream: &[u8], limit: usize, cuts: &[usize], gap: Gap, eof: bool) -> J {
    J::obj(vec![
        ("engine", J::s("scripted-stream")),
        ("stream_hex", J::hexs(stream)),
        ("stream_show", J::s(&show(stream))),
        ("limit", J::u(limit as u64)),
        ("cuts", J::Arr(cuts.iter().map(|c| J::u(*c as u64)).collect())),
        ("gap", J::s(match gap {
            Gap::None => "none",
            Gap::WouldBlock => "eagain",
            Gap::Interrupted => "eintr",
        })),
        ("eof", J::Bool(eof)),
    ])
}

fn summarize(o: &Outcome) -> String {
    let reqs: Vec<String> = o
        .delivered
        .iter()
        .map(|r| format!("{}:{}:v{}:cl{}:body{:?}", r.method, r.uri, r.version, r.content_length, r.body.as_ref().map(|b| b.len())))
        .collect();
    format!("delivered=[{}] error={:?} fault={:?}", reqs.join(", "), o.error, o.fault)
}

/// Absolute check of an outcome against M1. Returns a description of the first disagreement.
pub fn check_against_m1(o: &Outcome, m: &M1Out, check_timing: bool) -> Option<(String, String)> {
    if let Some(f) = &o.fault {
        return Some(("fault".into(), f.clone()));
    }
    let mut di = 0usize;
    for ev in &m.events {
        match ev {
            M1Event::Deliver { req, at, .. } => {
                if di >= o.delivered.len() {
                    return Some(("missing-delivery".into(), format!("request #{} {:?} (complete at byte {}) was not delivered; got {}", di, req.uri, at, summarize(o))));
                }
                if &o.delivered[di] != req {
                    return Some(("wrong-request".into(), format!("request #{} differs: expected {:?} got {:?}", di, req, o.delivered[di])));
                }
                if check_timing {
                    let (prev, now) = (o.deliver_prev_bytes[di], o.deliver_at_bytes[di]);
                    if !(prev < *at && *at <= now) {
                        return Some(("late-delivery".into(), format!("request #{} complete at byte {} but delivered by the read covering bytes {}..{}", di, at, prev, now)));
                    }
                }
                di += 1;
            }
            M1Event::Continue100 { .. } => {}
            M1Event::Error { err, at } => {
                if o.delivered.len() > di {
                    return Some(("extra-delivery".into(), format!("{} requests delivered, model allows {} before the error {}", o.delivered.len(), di, err.name())));
                }
                match &o.error {
                    None => return Some(("missing-error".into(), format!("expected error {} at byte {}, got {}", err.name(), at, summarize(o)))),
                    Some(e) => {
                        if !err.admits(e) {
                            return Some(("wrong-error".into(), format!("expected error {} got {:?}", err.name(), e)));
                        }
                    }
                }
                return None;
            }
        }
    }
    if o.delivered.len() > di {
        return Some(("extra-delivery".into(), format!("{} requests delivered, model says {}: extra {:?}", o.delivered.len(), di, o.delivered[di])));
    }
    if let Some(e) = &o.error {
        return Some(("spurious-error".into(), format!("error {:?} but the model sees none in this stream", e)));
    }
    None
}

fn cut_class(pos: usize, layouts: Option<&[Layout]>) -> &'static str {
    if pos % 1024 == 0 {
        return "cut_at_window_multiple";
    }
    let ls = match layouts {
        Some(l) => l,
        None => return "cut_unstructured",
    };
    for l in ls {
        if pos < l.start || pos > l.end {
            continue;
        }
        if pos == l.start {
            return "cut_between_requests";
        }
        if pos < l.reqline_end - 2 {
            return "cut_inside_request_line";
        }
        if pos == l.reqline_end - 1 {
            return "cut_between_CR_and_LF";
        }
        if pos == l.reqline_end - 2 {
            return "cut_before_CR";
        }
        if pos == l.hdr_end - 2 {
            return "cut_between_CRLF_and_CRLF";
        }
        if pos == l.hdr_end - 1 || l.header_ends.iter().any(|h| pos == h - 1) {
            return "cut_between_CR_and_LF";
        }
        if pos == l.hdr_end {
            return if l.end > l.hdr_end { "cut_headers_body_boundary" } else { "cut_between_requests" };
        }
        if pos < l.hdr_end {
            if l.header_ends.iter().any(|h| pos == *h) || pos == l.reqline_end {
                return "cut_at_line_start";
            }
            return "cut_inside_header_line";
        }
        if pos == l.end {
            return "cut_body_next_request_boundary";
        }
        return "cut_inside_body";
    }
    "cut_unstructured"
}

pub struct StreamCase<'a> {
    pub stream: &'a [u8],
    pub layouts: Option<&'a [Layout]>,
    pub limit: usize,
}

/// Runs one (stream, segmentation) execution and judges it. Returns true if a violation was reported.
fn exec(ctx: &mut Ctx, sc: &StreamCase, reference: &Outcome, m: &M1Out, sfp: u64, cuts: &[usize], gap: Gap, eof: bool) -> bool {
    if !ctx.begin() {
        return false;
    }
    ctx.rep.evaluations += 1;
    let o = run_stream(Some(sc.limit), sc.stream, cuts, gap, eof);
    if o.reads >= 2 {
        let mut f = Fp(sfp).u(gap as u64).u(eof as u64);
        for c in cuts {
            f = f.u(*c as u64);
        }
        ctx.rep.distinct(f.0);
    }
    for c in cuts {
        ctx.rep.count(cut_class(*c, sc.layouts));
    }
    match gap {
        Gap::None => {}
        Gap::WouldBlock => ctx.rep.add("empty_reads_eagain", cuts.len() as u64),
        Gap::Interrupted => ctx.rep.add("empty_reads_eintr", cuts.len() as u64),
    }
    ctx.rep.add("requests_delivered", o.delivered.len() as u64);
    if o.error.is_some() {
        ctx.rep.count("runs_ending_in_parse_error");
    }
    let mut problem: Option<(String, String)> = None;
    if let Some(f) = &o.fault {
        problem = Some(("fault".into(), f.clone()));
    } else if o.delivered != reference.delivered || o.error != reference.error {
        problem = Some((
            "segmentation-dependent".into(),
            format!("maximal reads: {} | this segmentation: {}", summarize(reference), summarize(&o)),
        ));
    } else if !m.dont_care {
        problem = check_against_m1(&o, m, true);
    }
    if let Some((kind, detail)) = problem {
        let sig = format!("C01:{}", kind);
        ctx.rep.violation(&sig, detail, case_json(sc.stream, sc.limit, cuts, gap, eof));
        return true;
    }
    false
}

pub fn check_stream(ctx: &mut Ctx, sc: &StreamCase, rng: &mut Rng, plan: &Plan) {
    let len = sc.stream.len();
    let sfp = Fp::new().bytes(sc.stream).u(sc.limit as u64).0;
    let m = m1(sc.stream, sc.limit);
    if m.dont_care {
        ctx.rep.count("streams_with_dont_care");
    }
    // reference = maximal reads
    ctx.begin(); // announce; the reference run is needed whatever case is selected
    let reference = run_stream(Some(sc.limit), sc.stream, &[], Gap::None, false);
    ctx.rep.evaluations += 1;
    ctx.rep.count("streams");
    if ctx.rep.want_sample() {
        ctx.rep.sample(J::obj(vec![
            ("stream", J::s(&show(sc.stream))),
            ("len", J::u(len as u64)),
            ("limit", J::u(sc.limit as u64)),
            ("model_events", J::u(m.events.len() as u64)),
            ("outcome_maximal_reads", J::s(&summarize(&reference))),
        ]));
    }
    if !m.dont_care || reference.fault.is_some() {
        if let Some((kind, detail)) = check_against_m1(&reference, &m, true) {
            ctx.rep.violation(&format!("C01:{}", kind), detail, case_json(sc.stream, sc.limit, &[], Gap::None, false));
            return; // the stream is already a witness; do not flood
        }
    }
    for ev in &m.events {
        match ev {
            M1Event::Deliver { req, .. } => {
                ctx.rep.count("model_deliveries");
                if req.body.is_some() {
                    ctx.rep.count("model_deliveries_with_body");
                }
            }
            M1Event::Error { err, .. } => ctx.rep.count(&format!("model_error_{}", err.name().split('(').next().unwrap_or("x"))),
            _ => {}
        }
    }
    if len < 2 {
        return;
    }
    // "delivered in stream order, each exactly once" also when the application does not empty the queue
    // after every read: it takes one (or two) requests per read and the rest at the end
    if reference.fault.is_none() && reference.delivered.len() >= 2 {
        for (k, cuts) in [(1usize, crate::gen::const_cuts(len, 64)), (1, crate::gen::const_cuts(len, 1024)), (2, crate::gen::const_cuts(len, 200)), (1, crate::gen::random_cuts(rng, len, 6))] {
            ctx.begin();
            ctx.rep.evaluations += 1;
            ctx.rep.count("partial_collection_runs");
            let (got, err, fault) = crate::conn::run_stream_partial_pop(Some(sc.limit), sc.stream, &cuts, k);
            if fault.is_some() || got != reference.delivered || err != reference.error {
                let mut c = case_json(sc.stream, sc.limit, &cuts, Gap::None, false);
                if let J::Obj(kv) = &mut c {
                    kv.push(("take_per_read".to_string(), J::u(k as u64)));
                }
                ctx.rep.violation(
                    "C01:order-depends-on-collection",
                    format!(
                        "taking at most {} request(s) after each read (cuts {:?}) the application receives {} requests in the order {:?} (error {:?}, fault {:?}); stream order is {:?}",
                        k,
                        &cuts[..cuts.len().min(8)],
                        got.len(),
                        got.iter().map(|r| r.uri.clone()).collect::<Vec<_>>(),
                        err,
                        fault,
                        reference.delivered.iter().map(|r| r.uri.clone()).collect::<Vec<_>>()
                    ),
                    c,
                );
                return;
            }
        }
    }
    let mut bad = 0usize;
    let mut run = |ctx: &mut Ctx, cuts: &[usize], gap: Gap, eof: bool| {
        if bad >= 3 {
            return;
        }
        if exec(ctx, sc, &reference, &m, sfp, cuts, gap, eof) {
            bad += 1;
        }
    };
    // all single cuts
    if plan.all_single_cuts {
        let mut p = 1;
        while p < len {
            for (gi, g) in plan.gaps.iter().enumerate() {
                // the gap variants alternate over positions unless stride is 1 and all are wanted
                if plan.gaps.len() > 1 && plan.single_cut_stride > 1 && (p + gi) % plan.gaps.len() != 0 {
                    continue;
                }
                run(ctx, &[p], *g, false);
            }
            p += 1;
        }
    } else {
        // interesting single cuts only
        let ips = match sc.layouts {
            Some(l) => gen::interesting_positions(len, l),
            None => Vec::new(),
        };
        for p in ips {
            let g = plan.gaps[p % plan.gaps.len()];
            run(ctx, &[p], g, false);
        }
    }
    // pairs from the interesting set
    if plan.pairs > 0 {
        let ips = match sc.layouts {
            Some(l) => gen::interesting_positions(len, l),
            None => {
                let mut v: Vec<usize> = (0..24).map(|_| rng.range(1, len - 1)).collect();
                v.sort_unstable();
                v.dedup();
                v
            }
        };
        if ips.len() >= 2 {
            let total = ips.len() * (ips.len() - 1) / 2;
            if plan.pairs >= total {
                for i in 0..ips.len() {
                    for j in i + 1..ips.len() {
                        let g = plan.gaps[(i + j) % plan.gaps.len()];
                        run(ctx, &[ips[i], ips[j]], g, false);
                    }
                }
            } else {
                for _ in 0..plan.pairs {
                    let i = rng.below(ips.len() - 1);
                    let j = rng.range(i + 1, ips.len() - 1);
                    let g = *rng.pick(&plan.gaps);
                    run(ctx, &[ips[i], ips[j]], g, false);
                }
            }
        }
    }
    for sz in &plan.const_sizes {
        if *sz >= len {
            continue;
        }
        let cuts = gen::const_cuts(len, *sz);
        let g = plan.gaps[*sz % plan.gaps.len()];
        // byte-at-a-time with a gap at every position is quadratic in nothing but still long: keep gaps for sizes >= 8
        let g = if *sz < 8 { Gap::None } else { g };
        run(ctx, &cuts, g, *sz % 5 == 0);
    }
    for _ in 0..plan.random_multi {
        let cuts = gen::random_cuts(rng, len, 12);
        let g = *rng.pick(&plan.gaps);
        let eof = rng.chance(1, 4);
        run(ctx, &cuts, g, eof);
    }
}

/// Builds `R0 R1 R2` such that structural element `elem` of R1 sits at absolute offset `target`.
/// elem: 0 CR of request line, 1 CR of first header, 2 CR of the blank line, 3 last body byte,
/// 4 first byte of the next request. `style` 0 pads with a preceding request's body, 1 pads with
/// header lines inside R1 (elements >= 1), 2 pads with the URI (element 0 only).
pub fn aligned_stream(rng: &mut Rng, elem: usize, target: usize, style: usize) -> Option<(Vec<u8>, Vec<Layout>)> {
    let opts = GenOpts { max_headers: 3, body_lens: vec![2, 5, 40, 700], ..Default::default() };
    let mut r1 = gen::valid_request(rng, 1, &opts);
    if r1.headers.is_empty() {
        r1.headers.push(b"X-A: b".to_vec());
    }
    if r1.body.len() < 2 {
        r1.body = gen::body_bytes(1, 9, rng);
        r1.headers.retain(|h| !h.to_ascii_lowercase().starts_with(b"content-length"));
        r1.headers.push(b"Content-Length: 9".to_vec());
    }
    let r2 = gen::valid_request(rng, 2, &GenOpts { body_lens: vec![0, 3], ..Default::default() });
    let elem_off = |l: &Layout| -> usize {
        match elem {
            0 => l.reqline_end - 2,
            1 => l.header_ends[0] - 2,
            2 => l.hdr_end - 2,
            3 => l.end - 1,
            _ => l.end,
        }
    };
    match style {
        0 => {
            // R0 = PUT with body of x bytes
            let mut probe = Vec::new();
            let l1 = r1.render_into(&mut probe);
            let e = elem_off(&l1);
            if target < e + 48 {
                return None;
            }
            let want0 = target - e;
            for x in (0..want0).rev() {
                let r0 = ReqSpec {
                    method: b"PUT".to_vec(),
                    uri: b"/pad".to_vec(),
                    version: b"HTTP/1.1".to_vec(),
                    headers: vec![format!("Content-Length: {}", x).into_bytes()],
                    body: gen::body_bytes(0, x, rng),
                    ..Default::default()
                };
                let l = r0.head_len() + x;
                if l == want0 {
                    let mut s = Vec::new();
                    let mut ls = Vec::new();
                    ls.push(r0.render_into(&mut s));
                    ls.push(r1.render_into(&mut s));
                    ls.push(r2.render_into(&mut s));
                    return Some((s, ls));
                }
                if l + 8 < want0 {
                    break;
                }
            }
            None
        }
        1 => {
            if elem < 2 {
                return None;
            }
            // pad header lines inside R1 (each shorter than the line limit), so that the window
            // boundary falls inside header processing
            let mut probe = Vec::new();
            let l1 = r1.render_into(&mut probe);
            let e = elem_off(&l1);
            if target <= e + 12 {
                return None;
            }
            let mut need = target - e; // bytes of pad lines including their CRLFs
            let mut pads: Vec<Vec<u8>> = Vec::new();
            while need > 0 {
                let take = if need > 900 { rng.range(300, 800) } else { need };
                if take < 10 {
                    match pads.last_mut() {
                        Some(last) => {
                            for _ in 0..take {
                                last.push(b'z');
                            }
                            need -= take;
                            continue;
                        }
                        None => return None,
                    }
                }
                pads.push(gen::pad_header(take - 2, pads.len()));
                need -= take;
            }
            if pads.iter().any(|p| p.len() + 2 > 1000) {
                return None;
            }
            let at = rng.below(r1.headers.len() + 1);
            for (i, p) in pads.into_iter().enumerate() {
                r1.headers.insert(at + i, p);
            }
            let mut s = Vec::new();
            let mut ls = Vec::new();
            ls.push(r1.render_into(&mut s));
            ls.push(r2.render_into(&mut s));
            Some((s, ls))
        }
        _ => {
            if elem != 0 || target > 1030 || target < 40 {
                return None;
            }
            // request line: METHOD SP URI SP VERSION ; CR at target
            let fixed = r1.method.len() + 1 + 1 + r1.version.len();
            if target <= fixed + 1 {
                return None;
            }
            let ulen = target - fixed;
            let mut uri = b"/".to_vec();
            while uri.len() < ulen {
                uri.push(b'a' + (uri.len() % 26) as u8);
            }
            r1.uri = uri;
            let mut s = Vec::new();
            let mut ls = Vec::new();
            ls.push(r1.render_into(&mut s));
            ls.push(r2.render_into(&mut s));
            Some((s, ls))
        }
    }
}

/// Byte-level corruption / truncation of a valid stream (outcome judged by M1 and confluence).
pub fn mangle(rng: &mut Rng, s: &[u8], layouts: &[Layout]) -> Vec<u8> {
    let mut v = s.to_vec();
    let ips: Vec<usize> = layouts.iter().flat_map(|l| l.interesting()).filter(|p| *p < v.len()).collect();
    let pos = if !ips.is_empty() && rng.chance(3, 4) { *rng.pick(&ips) } else { rng.below(v.len().max(1)) };
    let pos = pos.min(v.len().saturating_sub(1));
    match rng.below(6) {
        0 => {
            v.truncate(pos.max(1));
        }
        1 => {
            v[pos] = *rng.pick(&[b'\r', b'\n', b' ', b':', 0u8, 0xFF, b'a']);
        }
        2 => {
            v.remove(pos);
        }
        3 => {
            v.insert(pos, *rng.pick(&[b'\r', b'\n', b' ', b':', 0u8, 0xC3, b'Z']));
        }
        4 => {
            // over-long line: insert a long run without CRLF
            let n = rng.range(900, 1300);
            let run: Vec<u8> = (0..n).map(|i| b'a' + (i % 26) as u8).collect();
            let at = if ips.is_empty() { 0 } else { *rng.pick(&ips) };
            let at = at.min(v.len());
            v.splice(at..at, run);
        }
        _ => {
            v[pos] ^= 1 << rng.below(8);
        }
    }
    v
}

pub fn run(ctx: &mut Ctx) {
    let quick = ctx.quick();
    // ---- family A: grammar streams
    let n_a = ctx.budget(320, 10000);
    for i in 0..n_a {
        if !ctx.mine(i) {
            continue;
        }
        let mut rng = ctx.item_rng(0xA, i);
        let k = rng.range(1, 4);
        let limit = *rng.pick(&[51200usize, 51200, 2048, 1024, 100]);
        let opts = GenOpts { limit, ..Default::default() };
        let (s, ls) = gen::valid_stream(&mut rng, k, &opts);
        let plan = if quick {
            Plan {
                all_single_cuts: true,
                single_cut_stride: 2,
                pairs: 24,
                const_sizes: vec![1, 2, 3, 7, 64, 1023, 1024, 1025],
                random_multi: 8,
                gaps: vec![Gap::None, Gap::WouldBlock, Gap::Interrupted],
            }
        } else {
            Plan {
                all_single_cuts: true,
                single_cut_stride: 1,
                pairs: if i % 8 == 0 { usize::MAX } else { 400 },
                const_sizes: if i % 16 == 0 { (1..=1100).collect() } else { vec![1, 2, 3, 5, 7, 11, 64, 511, 512, 1000, 1022, 1023, 1024, 1025, 1026] },
                random_multi: 40,
                gaps: vec![Gap::None, Gap::WouldBlock, Gap::Interrupted],
            }
        };
        ctx.rep.count("family_grammar_streams");
        check_stream(ctx, &StreamCase { stream: &s, layouts: Some(&ls), limit }, &mut rng, &plan);
        // ---- family D: a stray empty line at a request boundary (after a body, before a request line):
        // whatever the verdict on it is, it must not depend on which read the CR LF arrives in
        if ls.len() >= 2 || i % 3 == 0 {
            let j = rng.below(ls.len());
            let mut v = s.clone();
            let stray: &[u8] = if rng.chance(1, 4) { b"\r\n\r\n" } else { b"\r\n" };
            v.splice(ls[j].end..ls[j].end, stray.iter().copied());
            let plan_d = Plan {
                all_single_cuts: true,
                single_cut_stride: 1,
                pairs: if quick { 16 } else { 200 },
                const_sizes: vec![1, 2, 3, 1023, 1024],
                random_multi: if quick { 4 } else { 20 },
                gaps: vec![Gap::None, Gap::WouldBlock, Gap::Interrupted],
            };
            ctx.rep.count("family_stray_empty_line_at_request_boundary");
            if ls[j].end > ls[j].hdr_end {
                ctx.rep.count("stray_empty_line_after_a_body");
            }
            check_stream(ctx, &StreamCase { stream: &v, layouts: None, limit }, &mut rng, &plan_d);
        }
        // ---- family C: truncations / corruptions of a subset
        let n_mangled = if quick { 1 } else { 3 };
        if i % 2 == 0 {
            for _ in 0..n_mangled {
                let v = mangle(&mut rng, &s, &ls);
                let plan_c = Plan {
                    all_single_cuts: !quick || v.len() < 1500,
                    single_cut_stride: 3,
                    pairs: if quick { 8 } else { 100 },
                    const_sizes: vec![1, 3, 1023, 1024],
                    random_multi: if quick { 6 } else { 30 },
                    gaps: vec![Gap::None, Gap::WouldBlock, Gap::Interrupted],
                };
                ctx.rep.count("family_mangled_streams");
                check_stream(ctx, &StreamCase { stream: &v, layouts: None, limit }, &mut rng, &plan_c);
            }
        }
    }
    // ---- family E: header blocks whose verdict is only known at their end (a repeated Content-Length,
    // the last one wins; an over-limit declaration followed by an acceptable one, by a malformed line, or by
    // nothing): the verdict must not depend on where inside the block a read ends
    let mut idx_e = 0u64;
    for limit in [51200usize, 1024, 100] {
        for first in [limit + 1, 2 * limit, u32::MAX as usize, limit, 3] {
            for second in 0..6usize {
                for tail in 0..2usize {
                    idx_e += 1;
                    if !ctx.mine(idx_e) {
                        continue;
                    }
                    let mut rng = ctx.item_rng(0xE, idx_e);
                    let mut s = format!("PUT /e{} HTTP/1.1\r\nContent-Length: {}\r\n", idx_e, first).into_bytes();
                    let mut body_len = if first <= limit { first } else { 0 };
                    match second {
                        0 => {}
                        1 => {
                            s.extend_from_slice(b"Content-Length: 5\r\n");
                            body_len = 5;
                        }
                        2 => s.extend_from_slice(b"Content-Length: abc\r\n"),
                        3 => s.extend_from_slice(b"nocolon\r\n"),
                        4 => {
                            s.extend_from_slice(format!("X-Pad: p\r\nExpect: 100-continue\r\ncontent-length: {}\r\n", limit).as_bytes());
                            body_len = limit;
                        }
                        _ => {
                            s.extend_from_slice(format!("Content-Length: 2\r\nContent-Length: {}\r\n", limit + 7).as_bytes());
                            body_len = 0;
                        }
                    }
                    s.extend_from_slice(b"X-Tag: t\r\n\r\n");
                    s.extend((0..body_len.min(3000)).map(|i| b'a' + (i % 26) as u8));
                    if tail == 1 {
                        s.extend_from_slice(b"GET /next HTTP/1.0\r\n\r\n");
                    }
                    let plan_e = Plan {
                        all_single_cuts: true,
                        single_cut_stride: 1,
                        pairs: if quick { 12 } else { 200 },
                        const_sizes: vec![1, 2, 7],
                        random_multi: if quick { 3 } else { 20 },
                        gaps: vec![Gap::None, Gap::WouldBlock, Gap::Interrupted],
                    };
                    ctx.rep.count("family_verdict_at_end_of_header_block");
                    check_stream(ctx, &StreamCase { stream: &s, layouts: None, limit }, &mut rng, &plan_e);
                }
            }
        }
    }
    // ---- family F: many tiny pipelined requests (20..120 of 18..40 bytes): dozens complete inside one read
    let n_f = ctx.budget(24, 600);
    for i in 0..n_f {
        if !ctx.mine(i + 7) {
            continue;
        }
        let mut rng = ctx.item_rng(0xF, i);
        let k = rng.range(20, 120);
        let mut s = Vec::new();
        for j in 0..k {
            match rng.below(4) {
                0 => s.extend_from_slice(b"GET / HTTP/1.1\r\n\r\n"),
                1 => s.extend_from_slice(format!("GET /{} HTTP/1.0\r\n\r\n", j).as_bytes()),
                2 => s.extend_from_slice(format!("PUT /{} HTTP/1.1\r\nContent-Length: 1\r\n\r\nx", j).as_bytes()),
                _ => s.extend_from_slice(format!("PATCH /p{} HTTP/1.1\r\nA: {}\r\n\r\n", j, j).as_bytes()),
            }
        }
        let plan_f = Plan {
            all_single_cuts: !quick,
            single_cut_stride: 17,
            pairs: if quick { 6 } else { 60 },
            const_sizes: vec![1, 64, 511, 1023, 1024, 1025],
            random_multi: if quick { 4 } else { 20 },
            gaps: vec![Gap::None, Gap::WouldBlock],
        };
        ctx.rep.count("family_many_tiny_requests");
        ctx.rep.max("max_requests_in_one_stream", k as u64);
        check_stream(ctx, &StreamCase { stream: &s, layouts: None, limit: 51200 }, &mut rng, &plan_f);
    }
    // ---- family B: alignment-targeted streams
    let mut idx = 0u64;
    let reps = ctx.budget(1, 6);
    for rep in 0..reps {
        for elem in 0..5usize {
            for b in [1024usize, 2048, 3072] {
                for delta in -3i64..=3 {
                    for style in 0..3usize {
                        idx += 1;
                        if !ctx.mine(idx) {
                            continue;
                        }
                        let mut rng = ctx.item_rng(0xB, idx ^ (rep << 32));
                        let target = (b as i64 + delta) as usize;
                        if let Some((s, ls)) = aligned_stream(&mut rng, elem, target, style) {
                            ctx.rep.count("family_aligned_streams");
                            ctx.rep.count(&format!("aligned_elem{}_style{}", elem, style));
                            let plan = Plan {
                                all_single_cuts: !quick,
                                single_cut_stride: 2,
                                pairs: if quick { 30 } else { 300 },
                                const_sizes: vec![1, 2, 511, 512, 1022, 1023, 1024, 1025],
                                random_multi: if quick { 6 } else { 30 },
                                gaps: vec![Gap::None, Gap::WouldBlock, Gap::Interrupted],
                            };
                            check_stream(ctx, &StreamCase { stream: &s, layouts: Some(&ls), limit: 51200 }, &mut rng, &plan);
                        }
                    }
                }
            }
        }
    }
    for (k, v) in take_probe_cov() {
        ctx.rep.add(&k, v);
    }
}

pub fn replay(ctx: &mut Ctx, case: &J) {
    let stream = case.ghex("stream_hex");
    let limit = case.gu("limit") as usize;
    let cuts: Vec<usize> = case.garr("cuts").iter().filter_map(|c| c.as_u64()).map(|c| c as usize).collect();
    let gap = match case.gs("gap").as_str() {
        "eagain" => Gap::WouldBlock,
        "eintr" => Gap::Interrupted,
        _ => Gap::None,
    };
    let eof = matches!(case.get("eof"), Some(J::Bool(true)));
    let m = m1(&stream, limit);
    let reference = run_stream(Some(limit), &stream, &[], Gap::None, false);
    let o = run_stream(Some(limit), &stream, &cuts, gap, eof);
    println!("stream ({} bytes): {}", stream.len(), show(&stream));
    println!("hex: {}", hex(&stream[..stream.len().min(64)]));
    println!("model: {:?}", m.events.iter().map(|e| match e {
        M1Event::Deliver { req, at, .. } => format!("Deliver({} @{})", req.uri, at),
        M1Event::Continue100 { at, .. } => format!("100(@{})", at),
        M1Event::Error { err, at } => format!("Error({} @{})", err.name(), at),
    }).collect::<Vec<_>>());
    println!("maximal reads : {}", summarize(&reference));
    println!("cuts {:?} gap {:?} eof {}: {}", cuts, gap, eof, summarize(&o));
    let sc = StreamCase { stream: &stream, layouts: None, limit };
    let sfp = 0;
    ctx.only_case = None;
    if let Some(k) = case.get("take_per_read").and_then(|k| k.as_u64()) {
        let (got, err, fault) = crate::conn::run_stream_partial_pop(Some(limit), &stream, &cuts, k as usize);
        println!("taking {} per read: {:?} error {:?} fault {:?}", k, got.iter().map(|r| r.uri.clone()).collect::<Vec<_>>(), err, fault);
        if fault.is_some() || got != reference.delivered || err != reference.error {
            ctx.rep.violation("C01:order-depends-on-collection", "the order in which requests are handed out depends on how many the application takes per read".into(), case.clone());
        }
        return;
    }
    exec(ctx, &sc, &reference, &m, sfp, &cuts, gap, eof);
}
