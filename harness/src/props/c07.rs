//! C07 — a response is delivered only to the connection that sent its request, in order.
//!
//! Monitor: tagged request/response histories on the real server. Every byte a client receives
//! is parsed by the independent response reader and attributed: application responses must carry
//! a tag of that client and generation, at most once, in the order supplied; server-generated
//! replies must be explainable by that client's own input.
use std::collections::HashMap;

use crate::hist::{self, Act, Applied, HistoryProp, Piece, Size};
use crate::sim::{judge_client, JudgeOpts, Sim};
use crate::util::{Rng, J};
use crate::Ctx;

pub struct P07 {
    pub max_clients: usize,
    pub max_reqs_per_gen: usize,
    /// malformed input is part of the alphabet (400 replies, server-side error paths)
    pub hostile_input: bool,
    /// Expect / body / mixed pieces are part of the alphabet (server-generated interim replies)
    pub all_pieces: bool,
    /// long pipelines and answers handed over in one `enqueue_responses` batch are part of the alphabet
    pub batches: bool,
    /// coverage: descriptor number -> last generation seen on it
    fd_owner: HashMap<i32, usize>,
    reuse_after_inflight_close: bool,
    closed_with_inflight: Vec<usize>,
}

impl P07 {
    pub fn new(max_clients: usize, max_reqs_per_gen: usize) -> Self {
        P07 { max_clients, max_reqs_per_gen, hostile_input: false, all_pieces: false, batches: false, fd_owner: HashMap::new(), reuse_after_inflight_close: false, closed_with_inflight: Vec::new() }
    }
    fn judge_all(&self, sim: &Sim) -> Option<(String, String)> {
        for g in &sim.gens {
            if let Err((k, d)) = judge_client(g, &JudgeOpts { allow_500: true }) {
                return Some((k, d));
            }
        }
        // yields: only complete requests of that generation, each once
        for g in &sim.gens {
            let mut seen: Vec<&String> = Vec::new();
            for t in &g.yielded {
                if seen.contains(&t) {
                    return Some(("duplicate-yield".into(), format!("request {} was yielded twice", t)));
                }
                seen.push(t);
                if !g.completed.iter().any(|c| c == t) {
                    return Some(("phantom-yield".into(), format!("request {} was yielded but c{}g{} never sent it completely (sent: {:?})", t, g.client, g.gen, g.completed)));
                }
            }
        }
        if let Some(u) = sim.untagged_yields.first() {
            return Some(("phantom-yield".into(), format!("a request with URI {:?} was yielded; no client sent it", u)));
        }
        None
    }
}

impl HistoryProp for P07 {
    fn new_sim(&mut self, _ctx: &mut Ctx) -> Option<Sim> {
        self.fd_owner.clear();
        self.reuse_after_inflight_close = false;
        self.closed_with_inflight.clear();
        Sim::new(false, None).ok()
    }

    fn enabled(&self, sim: &Sim) -> Vec<Act> {
        let mut v = Vec::new();
        // canonical client order: client c may connect once all lower clients have connected at least once
        for c in 0..self.max_clients {
            let ever = sim.gens.iter().any(|g| g.client == c);
            if sim.gen_of(c).is_none() {
                let gens_of_c = sim.gens.iter().filter(|g| g.client == c).count();
                if gens_of_c < 2 {
                    v.push(Act::Connect(c));
                }
            }
            if !ever {
                break;
            }
        }
        for c in 0..self.max_clients {
            if let Some(gi) = sim.gen_of(c) {
                let g = &sim.gens[gi];
                if !g.shut_wr && !g.send_failed {
                    if g.pending_rest.is_some() {
                        v.push(Act::Send(c, Piece::Rest));
                    } else if g.seq < self.max_reqs_per_gen {
                        v.push(Act::Send(c, Piece::Get));
                        v.push(Act::Send(c, Piece::Head));
                        if self.hostile_input && g.sends < 4 {
                            v.push(Act::Send(c, Piece::Bad));
                        }
                        if self.all_pieces && g.seq + 2 <= self.max_reqs_per_gen {
                            v.push(Act::Send(c, Piece::GetExpect));
                            v.push(Act::Send(c, Piece::Expect));
                            v.push(Act::Send(c, Piece::Put));
                        }
                        if g.seq + 2 <= self.max_reqs_per_gen {
                            v.push(Act::Send(c, Piece::Two));
                        }
                        if self.batches && g.seq + 9 <= self.max_reqs_per_gen {
                            v.push(Act::Send(c, Piece::Many));
                        }
                    }
                }
                v.push(Act::Close(c));
                if !g.shut_rd {
                    v.push(Act::ShutRd(c));
                }
                if !g.shut_wr {
                    v.push(Act::ShutWr(c));
                }
                if sim.has_unread(gi) {
                    v.push(Act::Drain(c));
                }
            }
        }
        if sim.ready() {
            v.push(Act::Poll);
        }
        for i in 0..sim.outstanding.len() {
            v.push(Act::Respond(i, Size::Small));
        }
        if self.batches && sim.gens.iter().any(|g| !g.supplied.is_empty()) {
            // the application flushes at an arbitrary moment
            v.push(Act::Flush);
        }
        if self.batches && sim.outstanding.len() >= 2 {
            // the permutation is a function of the history so far (replayable)
            v.push(Act::RespondBatch(2 + (sim.step as u64) * 7919 + sim.outstanding.len() as u64, Size::Small));
        }
        v
    }

    fn after(&mut self, ctx: &mut Ctx, sim: &mut Sim, act: &Act, _applied: &Applied) -> Option<(String, String)> {
        match act {
            Act::Close(c) => {
                // coverage: a client closing while requests yielded from it are unanswered
                if let Some(g) = sim.gens.iter().rev().find(|g| g.client == *c && g.client_closed) {
                    if g.yielded.len() > g.supplied.len() {
                        let gi = sim.gens.iter().position(|x| x.client == g.client && x.gen == g.gen).unwrap();
                        if !self.closed_with_inflight.contains(&gi) {
                            self.closed_with_inflight.push(gi);
                            ctx.rep.count("closes_with_requests_in_flight");
                        }
                    }
                }
                None
            }
            Act::Poll => {
                // coverage only: descriptor numbers re-used by a later generation
                for (fd, gi) in sim.observe_admissions() {
                    if let Some(gi) = gi {
                        if let Some(prev) = self.fd_owner.insert(fd, gi) {
                            if prev != gi {
                                ctx.rep.count("server_descriptor_numbers_reused");
                                if self.closed_with_inflight.contains(&prev) && !self.reuse_after_inflight_close {
                                    self.reuse_after_inflight_close = true;
                                    ctx.rep.count("histories_reusing_descriptor_of_connection_closed_with_requests_in_flight");
                                }
                            }
                        }
                    }
                }
                None
            }
            Act::Drain(c) => {
                let gi = sim.gens.iter().rposition(|g| g.client == *c)?;
                judge_client(&sim.gens[gi], &JudgeOpts { allow_500: true }).err()
            }
            _ => None,
        }
    }

    fn finish(&mut self, ctx: &mut Ctx, sim: &mut Sim) -> Option<(String, String)> {
        // let the consequences of the history surface: poll while ready (bounded), drain everybody
        sim.settle(24, None);
        sim.drain_all();
        ctx.rep.add("requests_yielded", sim.gens.iter().map(|g| g.yielded.len() as u64).sum());
        ctx.rep.add("responses_supplied", sim.gens.iter().map(|g| g.supplied.len() as u64).sum());
        ctx.rep.add("api_errors_seen_not_judged_here", sim.api_errors.len() as u64);
        ctx.rep.add("enqueue_responses_batches", sim.batches as u64);
        if sim.batch_max > 20 {
            ctx.rep.count("histories_with_a_batch_of_more_than_20_responses");
        }
        let r = self.judge_all(sim);
        if r.is_none() {
            let mut app = 0u64;
            for g in &sim.gens {
                if let Ok(v) = judge_client(g, &JudgeOpts { allow_500: true }) {
                    app += v.app_responses as u64;
                }
            }
            ctx.rep.add("application_responses_received_and_attributed", app);
            ctx.rep.add("responses_dropped_because_connection_gone", sim.gens.iter().filter(|g| g.client_closed).map(|g| g.supplied.len() as u64).sum());
        }
        r
    }

    fn nontrivial(&self, sim: &Sim) -> bool {
        sim.gens.iter().any(|g| !g.supplied.is_empty())
    }
}

/// Random histories biased towards: close with requests in flight -> new connect -> late answer.
fn choose(rng: &mut Rng, sim: &Sim, en: &[Act]) -> Option<Act> {
    if en.is_empty() {
        return None;
    }
    // weights
    let mut best: Vec<(usize, &Act)> = Vec::new();
    for a in en {
        let w = match a {
            Act::Poll => 10,
            Act::Connect(_) => {
                if sim.gens.iter().any(|g| g.client_closed && g.yielded.len() > g.supplied.len()) {
                    14
                } else {
                    4
                }
            }
            Act::Send(c, Piece::Bad) => {
                // a parse error on a connection that still has unanswered requests
                let inflight = sim.gen_of(*c).map(|gi| sim.gens[gi].yielded.len() > sim.gens[gi].supplied.len()).unwrap_or(false);
                if inflight {
                    6
                } else {
                    1
                }
            }
            Act::Send(_, Piece::Many) => 5,
            Act::Send(_, _) => 6,
            Act::Close(c) => {
                let inflight = sim.gen_of(*c).map(|gi| sim.gens[gi].yielded.len() > sim.gens[gi].supplied.len()).unwrap_or(false);
                if inflight {
                    8
                } else {
                    1
                }
            }
            Act::ShutRd(_) | Act::ShutWr(_) => 1,
            Act::Drain(_) => 5,
            Act::RespondBatch(_, _) => 2 + sim.outstanding.len().min(12),
            Act::Flush => 3,
            Act::Respond(i, _) => {
                // late answers to connections that are gone are the interesting ones
                let gone = sim.outstanding[*i].gen_idx.map(|gi| sim.gens[gi].client_closed).unwrap_or(false);
                if gone {
                    if sim.gens.iter().filter(|g| g.stream.is_some()).count() > 0 {
                        6
                    } else {
                        1
                    }
                } else {
                    3
                }
            }
            _ => 1,
        };
        best.push((w, a));
    }
    let total: usize = best.iter().map(|(w, _)| *w).sum();
    let mut x = rng.below(total);
    for (w, a) in best {
        if x < w {
            return Some(a.clone());
        }
        x -= w;
    }
    None
}

/// k clients pipeline 9..18 requests each; everything yielded is answered with ONE
/// `enqueue_responses` batch in a permuted (interleaved) order, possibly after some clients left.
fn batch_family(ctx: &mut Ctx, n: u64) {
    let mut rng = ctx.rng.fork(0xC07BA7);
    let mut p = P07::new(6, 19);
    p.batches = true;
    for _ in 0..n {
        ctx.begin();
        ctx.rep.evaluations += 1;
        ctx.rep.count("histories_batch_family");
        let k = 2 + rng.below(4);
        let mut acts = Vec::new();
        for c in 0..k {
            acts.push(Act::Connect(c));
        }
        acts.push(Act::Poll);
        acts.push(Act::Poll);
        for c in 0..k {
            acts.push(Act::Send(c, Piece::Many));
            if rng.chance(1, 2) {
                acts.push(Act::Send(c, Piece::Many));
            }
            if rng.chance(1, 3) {
                acts.push(Act::Send(c, Piece::Get));
            }
            if rng.chance(1, 3) {
                acts.push(Act::Poll);
            }
        }
        for _ in 0..(2 * k + 2) {
            acts.push(Act::Poll);
        }
        if rng.chance(1, 3) {
            // one client leaves with everything in flight; its share of the batch must be dropped
            acts.push(Act::Close(rng.below(k)));
            acts.push(Act::Poll);
        }
        if rng.chance(1, 4) {
            // part of the answers arrive one by one first
            acts.push(Act::Respond(rng.below(9), Size::Small));
            acts.push(Act::Respond(rng.below(9), Size::Small));
        }
        let perm = match rng.below(4) {
            0 => 0,
            1 => 1,
            _ => 2 + rng.next() % 1_000_000,
        };
        acts.push(Act::RespondBatch(perm, if rng.chance(1, 5) { Size::Medium } else { Size::Small }));
        for _ in 0..4 {
            acts.push(Act::Poll);
        }
        let out = hist::run_history(ctx, &mut p, &acts, true, false);
        if let Some((k, d)) = out.violation {
            ctx.rep.violation(&format!("C07:{}", k), d, hist::history_json(&acts, vec![]));
            if ctx.rep.violations_total > 30 {
                break;
            }
        }
    }
}

/// Back-pressure: a response larger than the socket buffer is pushed with `flush_outgoing_writes` to a client
/// that is not reading (the write is cut short), then more answers follow on the same connection and on others.
/// Whatever the server decides to do with the cut connection, every byte the client finally reads must still
/// belong to a well-formed response to one of its requests, in order.
fn flush_family(ctx: &mut Ctx, n: u64) {
    let mut rng = ctx.rng.fork(0xC07F1);
    let mut p = P07::new(4, 19);
    p.batches = true;
    for _ in 0..n {
        ctx.begin();
        ctx.rep.evaluations += 1;
        ctx.rep.count("histories_flush_family");
        let k = 1 + rng.below(3);
        let mut acts = Vec::new();
        for c in 0..k {
            acts.push(Act::Connect(c));
        }
        acts.push(Act::Poll);
        acts.push(Act::Poll);
        for c in 0..k {
            acts.push(Act::Send(c, if rng.chance(1, 2) { Piece::Two } else { Piece::Many }));
        }
        for _ in 0..(k + 2) {
            acts.push(Act::Poll);
        }
        // one large answer, pushed out by flush (or by polling) while nobody reads
        acts.push(Act::Respond(0, Size::Large));
        match rng.below(3) {
            0 => acts.push(Act::Flush),
            1 => {
                acts.push(Act::Poll);
                acts.push(Act::Flush);
            }
            _ => {
                acts.push(Act::Flush);
                acts.push(Act::Flush);
            }
        }
        // more answers, some for the same connection
        for _ in 0..rng.range(1, 4) {
            acts.push(Act::Respond(0, if rng.chance(1, 4) { Size::Medium } else { Size::Small }));
            if rng.chance(1, 2) {
                acts.push(Act::Flush);
            }
            if rng.chance(1, 2) {
                acts.push(Act::Poll);
            }
        }
        if rng.chance(1, 2) {
            acts.push(Act::DrainSome(0));
            acts.push(Act::Flush);
        }
        acts.push(Act::RespondAll(Size::Small));
        for _ in 0..4 {
            acts.push(Act::Poll);
        }
        let out = hist::run_history(ctx, &mut p, &acts, true, false);
        if let Some((k, d)) = out.violation {
            ctx.rep.violation(&format!("C07:{}", k), d, hist::history_json(&acts, vec![]));
            if ctx.rep.violations_total > 30 {
                break;
            }
        }
    }
}

pub fn run(ctx: &mut Ctx) {
    let quick = ctx.quick();
    let mut p = P07::new(2, 2);
    hist::dfs(ctx, &mut p, if quick { 7 } else { 9 }, 3, "C07", 12);
    if !quick {
        let mut p = P07::new(3, 2);
        hist::dfs(ctx, &mut p, 7, 3, "C07", 12);
    }
    // random: more clients, longer histories, generations up to 2 per client
    let mut p = P07::new(4, 3);
    let n = ctx.budget(20_000, 1_200_000) / ctx.nshards;
    hist::random_histories(ctx, &mut p, n, 20, 90, "C07", &mut choose);
    // the same with malformed input in the alphabet (400 replies interleaved with in-flight requests)
    let mut p = P07::new(3, 3);
    p.hostile_input = true;
    hist::random_histories(ctx, &mut p, n, 20, 90, "C07", &mut choose);
    // and with Expect / body / mixed pieces (100-continue replies interleaved with in-flight requests)
    let mut p = P07::new(3, 4);
    p.all_pieces = true;
    p.hostile_input = true;
    hist::random_histories(ctx, &mut p, n, 20, 90, "C07", &mut choose);
    let mut p = P07::new(2, 2);
    p.all_pieces = true;
    hist::dfs(ctx, &mut p, if quick { 6 } else { 8 }, 3, "C07", 12);
    let mut p = P07::new(2, 2);
    p.hostile_input = true;
    hist::dfs(ctx, &mut p, if quick { 6 } else { 8 }, 3, "C07", 12);
    // long pipelines answered through `enqueue_responses` in one interleaved batch
    let mut p = P07::new(4, 19);
    p.batches = true;
    hist::random_histories(ctx, &mut p, n / 2 + 1, 20, 90, "C07", &mut choose);
    batch_family(ctx, n / 2 + 1);
    flush_family(ctx, n / 8 + 1);
    // histories around the capacity boundary (up to 13 clients): closes with requests in flight,
    // newcomers while the server is full, late answers
    let mut rng = ctx.rng.fork(0xC0710);
    let mut p = P07::new(13, 8);
    for i in 0..(n / 4 + 1) {
        ctx.begin();
        ctx.rep.evaluations += 1;
        ctx.rep.count("histories_capacity");
        let mut acts = crate::props::c10::boundary_history(&mut rng);
        // late answers after the churn
        acts.push(Act::RespondAllRev(Size::Small));
        acts.push(Act::Poll);
        acts.push(Act::Poll);
        let out = hist::run_history(ctx, &mut p, &acts, true, false);
        if let Some((k, d)) = out.violation {
            ctx.rep.violation(&format!("C07:{}", k), d, hist::history_json(&acts, vec![]));
            if ctx.rep.violations_total > 30 {
                break;
            }
        }
        let _ = i;
    }
    if ctx.rep.samples.is_empty() {
        ctx.rep.sample(J::s("no sample"));
    }
}

pub fn replay(ctx: &mut Ctx, case: &J) {
    let mut p = P07::new(4, 3);
    p.hostile_input = true;
    p.all_pieces = true;
    p.batches = true;
    hist::replay_history(ctx, &mut p, case, "C07");
}
