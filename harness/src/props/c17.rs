//! C17 — the router dispatches to exactly the handler registered for (method, prefix+path).
//!
//! Monitor: recording handlers + reference route map M7 over bounded-exhaustive route tables and
//! requests in origin-form and absolute-form.
use std::sync::Mutex;

use micro_http::{Body, EndpointHandler, HttpRoutes, MediaType, Method, Request, Response, StatusCode, Version};

use crate::conn::guarded;
use crate::model::read_response;
use crate::model::RespParse;
use crate::props::c16::abs_path_model;
use crate::util::{Fp, Rng, J};
use crate::Ctx;

type Log = Mutex<Vec<usize>>;

struct Recorder {
    id: usize,
}

impl EndpointHandler<Log> for Recorder {
    fn handle_request(&self, _req: &Request, arg: &Log) -> Response {
        arg.lock().unwrap().push(self.id);
        let mut r = Response::new(Version::Http10, StatusCode::OK);
        r.set_body(Body::new(format!("handler-{}", self.id)));
        // handlers are free to fill in identity and content type themselves; the router's stamp
        // must still be what leaves it (every second handler does, so both kinds are dispatched)
        if self.id % 2 == 1 {
            r.set_content_type(MediaType::PlainText);
            r.set_server("handler-chosen-identity");
        }
        r
    }
}

const METHODS: [Method; 3] = [Method::Get, Method::Put, Method::Patch];
const PATHS: [&str; 8] = ["", "/", "/a", "/a/b", "/ab", "/a:b", "a", ":"];
/// "/" and "/p/" end in a slash: prefix + path is plain concatenation, so "/p/" + "/a" is "/p//a", not "/p/a".
const PREFIXES: [&str; 5] = ["", "/p", "/a", "/", "/p/"];

/// Path table 0: the short paths above. Table 1: eight long paths that share their first 254 bytes, with
/// lengths around 256 (so that prefix + path crosses 255 / 256 / 257 for every prefix) and beyond.
fn paths_of(table: usize) -> Vec<String> {
    if table == 0 {
        return PATHS.iter().map(|p| p.to_string()).collect();
    }
    if table == 2 {
        // paths that differ only in how a character is spelled: the router compares text, it does not decode
        return ["/a:b", "/a%3Ab", "/a%3ab", ":", "%3A", "/a:b:c", "/a%3Ab:c", "/a%2Fb"].iter().map(|p| p.to_string()).collect();
    }
    let base = |n: usize| -> String {
        let mut p = String::from("/");
        while p.len() < n {
            p.push((b'a' + (p.len() % 26) as u8) as char);
        }
        p
    };
    vec![base(254), base(255), base(256), base(257), format!("{}/y", base(256)), base(258), base(300), base(512)]
}

fn case_json(table: usize, prefix: &str, regs: &[(usize, usize)], method: usize, uri: &str) -> J {
    let paths = paths_of(table);
    J::obj(vec![
        ("prefix", J::s(prefix)),
        ("table", J::u(table as u64)),
        ("registrations", J::Arr(regs.iter().map(|(m, p)| J::s(&format!("{} {}", METHODS[*m].to_str(), paths[*p]))).collect())),
        ("regs_idx", J::Arr(regs.iter().map(|(m, p)| J::u((*m * 8 + *p) as u64)).collect())),
        ("request_method", J::u(method as u64)),
        ("request_uri", J::s(uri)),
    ])
}

/// The server identity the router under test is configured with: a function of the table, so that a replay
/// file reproduces it. Among them the empty identity and the crate's own default.
fn server_id_for(prefix: &str, regs: &[(usize, usize)]) -> &'static str {
    const IDS: [&str; 6] = ["srv-under-test", "", "srv-under-test", "Firecracker API", "x y/1 (z)", "srv-under-test"];
    let mut f = Fp::new().s(prefix);
    for (m, p) in regs {
        f = f.u((*m * 8 + *p) as u64);
    }
    IDS[(f.0 % IDS.len() as u64) as usize]
}

/// Builds the table, checks registration results, then dispatches every request of `uris`.
fn check_table(ctx: &mut Ctx, prefix: &str, regs: &[(usize, usize)], uris: &[String], only: Option<(usize, &str)>) -> bool {
    check_table_t(ctx, 0, prefix, regs, uris, only)
}

fn check_table_t(ctx: &mut Ctx, table: usize, prefix: &str, regs: &[(usize, usize)], uris: &[String], only: Option<(usize, &str)>) -> bool {
    let paths = paths_of(table);
    let case_json = |prefix: &str, regs: &[(usize, usize)], method: usize, uri: &str| case_json(table, prefix, regs, method, uri);
    let server_id = server_id_for(prefix, regs);
    if server_id.is_empty() {
        ctx.rep.count("tables_with_the_empty_server_identity");
    }
    let mut router: HttpRoutes<Log> = HttpRoutes::new(server_id.to_string(), prefix.to_string());
    // M7
    let mut model: Vec<(usize, String, usize)> = Vec::new(); // (method, full path, handler id)
    for (i, (m, p)) in regs.iter().enumerate() {
        let full = format!("{}{}", prefix, paths[*p]);
        let dup = model.iter().any(|(mm, ff, _)| mm == m && *ff == full);
        let res = guarded(|| router.add_route(METHODS[*m], paths[*p].clone(), Box::new(Recorder { id: i })));
        ctx.rep.count("registrations");
        match res {
            Err(p) => {
                ctx.rep.violation("C17:panic", format!("add_route panicked: {}", p), case_json(prefix, regs, 0, ""));
                return true;
            }
            Ok(r) => {
                if dup {
                    ctx.rep.count("duplicate_registrations");
                }
                if r.is_ok() == dup {
                    ctx.rep.violation(
                        "C17:registration",
                        format!("registration #{} of ({}, {:?}) returned {:?}; it {} a duplicate", i, METHODS[*m].to_str(), full, r.is_ok(), if dup { "is" } else { "is not" }),
                        case_json(prefix, regs, 0, ""),
                    );
                    return true;
                }
            }
        }
        if !dup {
            model.push((*m, full, i));
        }
    }
    let log: Log = Mutex::new(Vec::new());
    for (mi, method) in METHODS.iter().enumerate() {
        for uri in uris {
            if let Some((om, ou)) = only {
                if om != mi || ou != uri {
                    continue;
                }
            }
            if !ctx.begin() {
                continue;
            }
            ctx.rep.evaluations += 1;
            // the request's headers and body are none of the router's business: a function of (method, uri) picks one
            const EXTRAS: [&str; 8] = [
                "",
                "Transfer-Encoding: chunked\r\n",
                "Expect: 100-continue\r\n",
                "Accept: text/plain\r\nX-Custom: 1\r\n",
                "Connection: close\r\n",
                "Content-Type: text/plain\r\nTransfer-Encoding: chunked\r\nExpect: 100-continue\r\n",
                "Accept-Encoding: gzip, identity\r\n",
                "Server: someone-else\r\n",
            ];
            let extra = EXTRAS[(Fp::new().s(uri).u(mi as u64).0 % EXTRAS.len() as u64) as usize];
            let version = if uri.len() % 2 == 0 { "1.1" } else { "1.0" };
            let raw = if mi > 0 && uri.len() % 3 == 0 {
                format!("{} {} HTTP/{}\r\n{}Content-Length: 2\r\n\r\nhi", method.to_str(), uri, version, extra)
            } else {
                format!("{} {} HTTP/{}\r\n{}\r\n", method.to_str(), uri, version, extra)
            };
            let req = match Request::try_from(raw.as_bytes(), None) {
                Ok(r) => r,
                Err(_) => continue,
            };
            if !extra.is_empty() {
                ctx.rep.count("dispatches_of_requests_with_headers");
            }
            log.lock().unwrap().clear();
            let resp = match guarded(|| router.handle_http_request(&req, &log)) {
                Ok(r) => r,
                Err(p) => {
                    ctx.rep.violation("C17:panic", format!("handle_http_request panicked: {}", p), case_json(prefix, regs, mi, uri));
                    return true;
                }
            };
            let path = abs_path_model(uri);
            let want: Option<usize> = model.iter().find(|(m, f, _)| *m == mi && f == path).map(|(_, _, id)| *id);
            let invoked = log.lock().unwrap().clone();
            let mut ser = Vec::new();
            resp.write_all(&mut ser).unwrap();
            let parsed = read_response(&ser);
            let (srv, ctype, body, code) = match &parsed {
                RespParse::Complete(v) => (v.header("Server").unwrap_or("").to_string(), v.header("Content-Type").unwrap_or("").to_string(), v.body.clone(), v.code),
                _ => (String::new(), String::new(), Vec::new(), 0),
            };
            let mut problem = None;
            match want {
                Some(id) => {
                    ctx.rep.count("dispatches_to_a_handler");
                    if id % 2 == 1 {
                        ctx.rep.count("dispatches_to_a_handler_that_sets_its_own_identity_and_content_type");
                    }
                    if invoked != vec![id] {
                        problem = Some(("wrong-handler", format!("handlers invoked {:?}, expected exactly [{}]", invoked, id)));
                    } else if resp.status() != StatusCode::OK || code != 200 || body != format!("handler-{}", id).into_bytes() {
                        problem = Some(("wrong-response", format!("response is not the handler's: status {:?} body {:?}", resp.status(), String::from_utf8_lossy(&body))));
                    }
                }
                None => {
                    ctx.rep.count("dispatches_without_handler");
                    if !invoked.is_empty() {
                        problem = Some(("handler-invoked-for-unregistered-route", format!("no route for ({}, {:?}) but handlers {:?} ran", method.to_str(), path, invoked)));
                    } else if resp.status() != StatusCode::NotFound || code != 404 {
                        problem = Some(("not-404", format!("no route but status {:?}", resp.status())));
                    }
                }
            }
            if problem.is_none() && (srv != server_id || ctype != "application/json") {
                problem = Some(("stamp", format!("Server={:?} Content-Type={:?}", srv, ctype)));
            }
            if want.is_some() {
                let mut f = Fp::new().s(prefix).u(mi as u64).s(uri);
                for (m, p) in regs {
                    f = f.u((*m * 8 + *p) as u64);
                }
                ctx.rep.distinct(f.0);
            }
            if let Some((k, d)) = problem {
                ctx.rep.violation(&format!("C17:{}", k), format!("prefix {:?}, request {} {:?} (abs path {:?}): {}", prefix, method.to_str(), uri, path, d), case_json(prefix, regs, mi, uri));
                return true;
            }
        }
    }
    false
}

fn request_uris(prefix: &str) -> Vec<String> {
    request_uris_t(0, prefix)
}

fn request_uris_t(table: usize, prefix: &str) -> Vec<String> {
    let mut v: Vec<String> = Vec::new();
    let mut paths: Vec<String> = Vec::new();
    for p in paths_of(table).iter() {
        paths.push(p.to_string());
        paths.push(format!("{}{}", prefix, p));
        for other in PREFIXES {
            paths.push(format!("{}{}", other, p));
        }
    }
    paths.sort();
    paths.dedup();
    for p in &paths {
        if !p.is_empty() && !p.contains(' ') {
            v.push(p.clone()); // origin-form (or whatever the path text is)
        }
        v.push(format!("http://h{}", p)); // absolute-form
        v.push(format!("http://h:80{}", p));
    }
    v.sort();
    v.dedup();
    v
}

pub fn run(ctx: &mut Ctx) {
    let quick = ctx.quick();
    let max_regs = if quick { 3 } else { 4 };
    let mut idx = 0u64;
    let mut bad = 0;
    for prefix in PREFIXES {
        let uris = request_uris(prefix);
        for nregs in 0..=max_regs {
            let total = 24u64.pow(nregs as u32);
            for n in 0..total {
                idx += 1;
                if !ctx.mine(idx) {
                    continue;
                }
                let mut x = n;
                let mut regs = Vec::new();
                for _ in 0..nregs {
                    let r = (x % 24) as usize;
                    x /= 24;
                    regs.push((r / 8, r % 8));
                }
                ctx.rep.count("tables_enumerated");
                if ctx.rep.samples.len() < 4 && n % 97 == 13 {
                    ctx.rep.sample(case_json(0, prefix, &regs, 0, &uris[n as usize % uris.len()]));
                }
                if check_table(ctx, prefix, &regs, &uris, None) {
                    bad += 1;
                    if bad > 10 {
                        return;
                    }
                }
            }
        }
    }
    long_path_family(ctx);
    incremental_family(ctx);
    if ctx.shard == 2 % ctx.nshards {
        nested_family(ctx);
    }
    // random tables with 3..4 (quick) / 4..6 (thorough) registrations, duplicates likely
    let n_rand = ctx.budget(300, 20_000) / ctx.nshards + 1;
    let mut rng: Rng = ctx.rng.fork(0xC17);
    for _ in 0..n_rand {
        let prefix = *rng.pick(&PREFIXES);
        let k = if quick { rng.range(3, 4) } else { rng.range(4, 6) };
        let regs: Vec<(usize, usize)> = (0..k).map(|_| (rng.below(3), rng.below(8))).collect();
        let uris = request_uris(prefix);
        ctx.rep.count("tables_random");
        if check_table(ctx, prefix, &regs, &uris, None) {
            bad += 1;
            if bad > 10 {
                return;
            }
        }
    }
}

/// One dispatch judged against the route map `model` ((method, full path, handler id)).
fn judge_dispatch(router: &HttpRoutes<Log>, server_id: &str, model: &[(usize, String, usize)], log: &Log, mi: usize, uri: &str) -> Option<(String, String)> {
    let raw = format!("{} {} HTTP/1.1\r\n\r\n", METHODS[mi].to_str(), uri);
    let req = Request::try_from(raw.as_bytes(), None).ok()?;
    log.lock().unwrap().clear();
    let resp = match guarded(|| router.handle_http_request(&req, log)) {
        Ok(r) => r,
        Err(p) => return Some(("panic".into(), format!("handle_http_request panicked: {}", p))),
    };
    let path = abs_path_model(uri);
    let want: Option<usize> = model.iter().find(|(m, f, _)| *m == mi && f == path).map(|(_, _, id)| *id);
    let invoked = log.lock().unwrap().clone();
    let mut ser = Vec::new();
    resp.write_all(&mut ser).unwrap();
    let (srv, ctype, body, code) = match read_response(&ser) {
        RespParse::Complete(v) => (v.header("Server").unwrap_or("").to_string(), v.header("Content-Type").unwrap_or("").to_string(), v.body.clone(), v.code),
        _ => (String::new(), String::new(), Vec::new(), 0),
    };
    match want {
        Some(id) => {
            if invoked != vec![id] {
                return Some(("wrong-handler".into(), format!("request {} {:?}: handlers invoked {:?}, expected exactly [{}]", METHODS[mi].to_str(), uri, invoked, id)));
            }
            if code != 200 || body != format!("handler-{}", id).into_bytes() {
                return Some(("wrong-response".into(), format!("request {} {:?}: response is not the handler's (status {})", METHODS[mi].to_str(), uri, code)));
            }
        }
        None => {
            if !invoked.is_empty() {
                return Some(("handler-invoked-for-unregistered-route".into(), format!("request {} {:?}: no route, but handlers {:?} ran", METHODS[mi].to_str(), uri, invoked)));
            }
            if code != 404 {
                return Some(("not-404".into(), format!("request {} {:?}: no route but status {}", METHODS[mi].to_str(), uri, code)));
            }
        }
    }
    if srv != server_id || ctype != "application/json" {
        return Some(("stamp".into(), format!("Server={:?} Content-Type={:?}", srv, ctype)));
    }
    None
}

/// Registration and dispatch interleaved on one router: the answer to a request depends on the routes
/// registered at that moment, not on what was asked (and missed, or hit) before.
fn incremental_family(ctx: &mut Ctx) {
    let n = ctx.budget(400, 20_000) / ctx.nshards + 1;
    let mut rng: Rng = ctx.rng.fork(0xC17_1AC);
    for _ in 0..n {
        let prefix = *rng.pick(&PREFIXES);
        let k = rng.range(1, 5);
        let regs: Vec<(usize, usize)> = (0..k).map(|_| (rng.below(3), rng.below(8))).collect();
        if incremental_case(ctx, prefix, &regs) && ctx.rep.violations_total > 10 {
            return;
        }
    }
}

/// One interleaving; every choice is a function of (prefix, regs), so a replay file reproduces it.
fn incremental_case(ctx: &mut Ctx, prefix: &str, regs: &[(usize, usize)]) -> bool {
    if !ctx.begin() {
        return false;
    }
    ctx.rep.evaluations += 1;
    ctx.rep.count("incremental_tables");
    let paths = paths_of(0);
    let mut f = Fp::new().s(prefix);
    for (m, p) in regs {
        f = f.u((*m * 8 + *p) as u64);
    }
    let mut rng = Rng::new(f.0);
    let server_id = server_id_for(prefix, regs);
    let mut router: HttpRoutes<Log> = HttpRoutes::new(server_id.to_string(), prefix.to_string());
    let mut model: Vec<(usize, String, usize)> = Vec::new();
    let log: Log = Mutex::new(Vec::new());
    let mut fault: Option<(String, String)> = None;
    'steps: for (i, (m, p)) in regs.iter().enumerate() {
        let full = format!("{}{}", prefix, paths[*p]);
        let uri = if full.is_empty() || full.contains(' ') || rng.chance(1, 3) { format!("http://h{}", full) } else { full.clone() };
        // before the registration: asked once or twice (a miss, or a hit on an earlier duplicate)
        for _ in 0..rng.range(1, 2) {
            ctx.rep.count("dispatches_before_the_registration");
            if let Some(f) = judge_dispatch(&router, server_id, &model, &log, *m, &uri) {
                fault = Some(f);
                break 'steps;
            }
        }
        let dup = model.iter().any(|(mm, ff, _)| mm == m && *ff == full);
        let r = router.add_route(METHODS[*m], paths[*p].clone(), Box::new(Recorder { id: i }));
        if r.is_ok() == dup {
            fault = Some(("registration".into(), format!("registration #{} of ({}, {:?}) returned {:?}; it {} a duplicate", i, METHODS[*m].to_str(), full, r.is_ok(), if dup { "is" } else { "is not" })));
            break;
        }
        if !dup {
            model.push((*m, full, i));
        }
        ctx.rep.count("dispatches_right_after_the_registration");
        if let Some(f) = judge_dispatch(&router, server_id, &model, &log, *m, &uri) {
            fault = Some(f);
            break;
        }
        // and the earlier routes are still in effect
        if let Some((m0, f0, _)) = model.first().cloned() {
            if !f0.is_empty() && !f0.contains(' ') {
                if let Some(f) = judge_dispatch(&router, server_id, &model, &log, m0, &f0) {
                    fault = Some(f);
                    break;
                }
            }
        }
    }
    if let Some((k, d)) = fault {
        let mut c = case_json(0, prefix, regs, 0, "");
        if let J::Obj(kv) = &mut c {
            kv.push(("family".to_string(), J::s("incremental")));
        }
        ctx.rep.violation(&format!("C17:incremental:{}", k), format!("prefix {:?}, registrations interleaved with requests: {}", prefix, d), c);
        return true;
    }
    false
}

/// A handler that forwards the request to another router (an alias / versioned sub-router) before it returns.
struct Forwarder {
    id: usize,
    inner: std::sync::Arc<HttpRoutes<Log>>,
}

impl EndpointHandler<Log> for Forwarder {
    fn handle_request(&self, req: &Request, arg: &Log) -> Response {
        arg.lock().unwrap().push(self.id);
        self.inner.handle_http_request(req, arg)
    }
}

/// Routers nested through forwarding handlers, one to three levels deep: every level's handler runs exactly
/// once, the innermost response comes back, stamped by the outermost router.
fn nested_family(ctx: &mut Ctx) {
    for depth in 1..=3usize {
        for (mi, method) in METHODS.iter().enumerate() {
            for path in ["/a", "/a/b", "/"] {
                for registered_inner in [true, false] {
                    if !ctx.begin() {
                        continue;
                    }
                    ctx.rep.evaluations += 1;
                    ctx.rep.count("nested_dispatches");
                    let mut inner: HttpRoutes<Log> = HttpRoutes::new("innermost".to_string(), String::new());
                    if registered_inner {
                        let _ = inner.add_route(*method, path.to_string(), Box::new(Recorder { id: 100 }));
                    }
                    let mut router = std::sync::Arc::new(inner);
                    for level in 0..depth {
                        let mut outer: HttpRoutes<Log> = HttpRoutes::new(format!("level-{}", level), String::new());
                        let _ = outer.add_route(*method, path.to_string(), Box::new(Forwarder { id: level, inner: router.clone() }));
                        router = std::sync::Arc::new(outer);
                    }
                    let raw = format!("{} {} HTTP/1.1\r\n\r\n", method.to_str(), path);
                    let req = match Request::try_from(raw.as_bytes(), None) {
                        Ok(r) => r,
                        Err(_) => continue,
                    };
                    let log: Log = Mutex::new(Vec::new());
                    let case = J::obj(vec![("family", J::s("nested")), ("depth", J::u(depth as u64)), ("method", J::u(mi as u64)), ("path", J::s(path)), ("inner_registered", J::Bool(registered_inner))]);
                    let resp = match guarded(|| router.handle_http_request(&req, &log)) {
                        Ok(r) => r,
                        Err(p) => {
                            ctx.rep.violation("C17:panic", format!("dispatch through {} forwarding handlers panicked: {}", depth, p), case);
                            return;
                        }
                    };
                    let invoked = log.lock().map(|l| l.clone()).unwrap_or_default();
                    let mut want: Vec<usize> = (0..depth).rev().collect();
                    if registered_inner {
                        want.push(100);
                    }
                    let mut ser = Vec::new();
                    let _ = resp.write_all(&mut ser);
                    let (srv, code) = match read_response(&ser) {
                        RespParse::Complete(v) => (v.header("Server").unwrap_or("").to_string(), v.code),
                        _ => (String::new(), 0),
                    };
                    let want_code = if registered_inner { 200 } else { 404 };
                    if invoked != want || code != want_code || srv != format!("level-{}", depth - 1) {
                        ctx.rep.violation(
                            "C17:nested-dispatch",
                            format!("{} levels of forwarding for {} {:?}: handlers invoked {:?} (expected {:?}), status {} (expected {}), Server {:?} (expected the outermost router's)", depth, method.to_str(), path, invoked, want, code, want_code, srv),
                            case,
                        );
                        return;
                    }
                }
            }
        }
    }
}

/// Long paths: routes whose prefix + path has 254..514 bytes and which are prefixes of one another.
fn long_path_family(ctx: &mut Ctx) {
    let n = ctx.budget(160, 8_000) / ctx.nshards + 1;
    let mut rng: Rng = ctx.rng.fork(0xC17_256);
    for i in 0..n {
        // table 1: long paths; table 2: paths that differ only in the spelling of one character
        let table = 1 + (i % 2) as usize;
        let prefix = *rng.pick(&PREFIXES);
        let k = rng.range(1, 4);
        let regs: Vec<(usize, usize)> = (0..k).map(|_| (rng.below(3), rng.below(8))).collect();
        let uris = request_uris_t(table, prefix);
        ctx.rep.count(if table == 1 { "tables_with_long_paths" } else { "tables_with_percent_spellings" });
        if check_table_t(ctx, table, prefix, &regs, &uris, None) && ctx.rep.violations_total > 10 {
            return;
        }
    }
}

pub fn replay(ctx: &mut Ctx, case: &J) {
    ctx.only_case = None;
    let prefix = case.gs("prefix");
    let regs: Vec<(usize, usize)> = case.garr("regs_idx").iter().filter_map(|x| x.as_u64()).map(|x| ((x / 8) as usize, (x % 8) as usize)).collect();
    if case.gs("family") == "nested" {
        nested_family(ctx);
        return;
    }
    if case.gs("family") == "incremental" {
        incremental_case(ctx, &prefix, &regs);
        return;
    }
    let uri = case.gs("request_uri");
    let m = case.gu("request_method") as usize;
    println!("prefix {:?} registrations {:?} request {} {:?}", prefix, regs, METHODS[m.min(2)].to_str(), uri);
    let uris = vec![uri.clone()];
    check_table_t(ctx, case.gu("table") as usize, &prefix, &regs, &uris, if uri.is_empty() { None } else { Some((m, uri.as_str())) });
}
