//! One workload + oracle module per property.
use crate::util::J;
use crate::Ctx;

pub mod c01;

pub fn run(ctx: &mut Ctx) {
    match ctx.prop.as_str() {
        "C01" => c01::run(ctx),
        other => {
            eprintln!("unknown property {}", other);
            std::process::exit(2);
        }
    }
}

pub fn replay(ctx: &mut Ctx, case: &J) {
    match ctx.prop.as_str() {
        "C01" => c01::replay(ctx, case),
        other => {
            eprintln!("unknown property {}", other);
            std::process::exit(2);
        }
    }
}
