//! One workload + oracle module per property.
use crate::util::J;
use crate::Ctx;

macro_rules! props {
    ($($id:literal => $m:ident),* $(,)?) => {
        $(pub mod $m;)*
        pub fn run(ctx: &mut Ctx) {
            match ctx.prop.as_str() {
                $($id => $m::run(ctx),)*
                other => { eprintln!("unknown property {}", other); std::process::exit(2); }
            }
        }
        pub fn replay(ctx: &mut Ctx, case: &J) {
            match ctx.prop.as_str() {
                $($id => $m::replay(ctx, case),)*
                other => { eprintln!("unknown property {}", other); std::process::exit(2); }
            }
        }
    };
}

props! {
    "C01" => c01,
    "C02" => c02,
    "C03" => c03,
    "C04" => c04,
    "C05" => c05,
    "C06" => c06,
    "C07" => c07,
    "C08" => c08,
    "C09" => c09,
    "C10" => c10,
    "C11" => c11,
    "C12" => c12,
    "C13" => c13,
    "C14" => c14,
    "C15" => c15,
    "C16" => c16,
    "C17" => c17,
    "C18" => c18,
}
