//! C02 — accepted requests are exactly those of the documented grammar, fields verbatim;
//! otherwise the error kind names the first offending element.
//!
//! Monitor: the reference grammar M1 against the real connection on the same stream, both
//! directions (M1 delivers <=> connection delivers, fields equal; else same error family and
//! all earlier requests delivered first).
use crate::conn::{run_stream, Gap};
use crate::gen::{self, GenOpts, ReqSpec, CORRUPTIONS};
use crate::model::{m1, M1Event};
use crate::props::c01::check_against_m1;
use crate::util::{show, Fp, Rng, J};
use crate::Ctx;

fn case_json(stream: &[u8], limit: usize, cuts: &[usize], what: &str) -> J {
    J::obj(vec![
        ("engine", J::s("scripted-stream")),
        ("what", J::s(what)),
        ("stream_hex", J::hexs(stream)),
        ("stream_show", J::s(&show(stream))),
        ("limit", J::u(limit as u64)),
        ("cuts", J::Arr(cuts.iter().map(|c| J::u(*c as u64)).collect())),
    ])
}

/// Judges one stream; returns true when a violation was reported.
pub fn judge(ctx: &mut Ctx, stream: &[u8], limit: usize, cuts: &[usize], what: &str, sig_prefix: &str) -> bool {
    judge_gap(ctx, stream, limit, cuts, Gap::None, what, sig_prefix)
}

/// `gap`: kind of empty read (EAGAIN / EINTR) inserted between the segments.
pub fn judge_gap(ctx: &mut Ctx, stream: &[u8], limit: usize, cuts: &[usize], gap: Gap, what: &str, sig_prefix: &str) -> bool {
    if !ctx.begin() {
        return false;
    }
    ctx.rep.evaluations += 1;
    let m = m1(stream, limit);
    if m.dont_care {
        ctx.rep.count("dont_care_streams_skipped");
        return false;
    }
    let o = run_stream(Some(limit), stream, cuts, gap, false);
    if gap != Gap::None && !cuts.is_empty() {
        ctx.rep.count("segmented_runs_with_empty_reads_between");
    }
    if !m.events.is_empty() {
        ctx.rep.distinct(Fp::new().bytes(stream).u(limit as u64).0);
    }
    for ev in &m.events {
        match ev {
            M1Event::Deliver { .. } => ctx.rep.count("model_deliveries"),
            M1Event::Continue100 { .. } => ctx.rep.count("model_100_continue"),
            M1Event::Error { err, .. } => ctx.rep.count(&format!("model_error_{}", err.name().split('(').next().unwrap_or("x"))),
        }
    }
    if m.incomplete_tail {
        ctx.rep.count("streams_ending_incomplete");
    }
    if let Some((kind, detail)) = check_against_m1(&o, &m, true) {
        ctx.rep.violation(
            &format!("{}:{}", sig_prefix, kind),
            format!("[{}] {}", what, detail),
            case_json(stream, limit, cuts, what),
        );
        return true;
    }
    false
}

fn render_stream(reqs: &[ReqSpec]) -> Vec<u8> {
    let mut s = Vec::new();
    for r in reqs {
        s.extend_from_slice(&gen::render_raw(r));
    }
    s
}

/// Extra edge requests that are not single corruptions of a pool request.
fn edge_streams() -> Vec<(&'static str, Vec<u8>)> {
    let v: Vec<(&'static str, &[u8])> = vec![
        ("cl0_then_body", b"PUT /x HTTP/1.1\r\nContent-Length: 0\r\n\r\nBODY"),
        ("only_crlf", b"\r\n"),
        ("crlf_before_request", b"\r\nGET / HTTP/1.1\r\n\r\n"),
        ("lf_only_request", b"GET / HTTP/1.1\n\n"),
        ("tab_separated", b"GET\t/\tHTTP/1.1\r\n\r\n"),
        ("three_spaces", b"GET / HTTP/1.1 \r\n\r\n"),
        ("leading_space", b" GET / HTTP/1.1\r\n\r\n"),
        ("uri_with_nul", b"GET /\0 HTTP/1.1\r\n\r\n"),
        ("method_get_lower_mixed", b"GeT / HTTP/1.1\r\n\r\n"),
        ("version_http11_nodot", b"GET / HTTP/11\r\n\r\n"),
        ("version_http_1_1_lowercase_h", b"GET / hTTP/1.1\r\n\r\n"),
        ("header_colon_only", b"GET / HTTP/1.1\r\n:\r\n\r\n"),
        ("header_space_before_colon", b"PUT / HTTP/1.1\r\nContent-Length : 3\r\n\r\nabc"),
        ("header_unicode_space", "PUT / HTTP/1.1\r\nContent-Length:\u{2003}3\u{a0}\r\n\r\nabc".as_bytes()),
        ("cl_with_inner_space", b"PUT / HTTP/1.1\r\nContent-Length: 1 2\r\n\r\nabc"),
        ("cl_hex", b"PUT / HTTP/1.1\r\nContent-Length: 0x10\r\n\r\nabc"),
        ("cl_twice_last_wins", b"PUT / HTTP/1.1\r\nContent-Length: 5\r\nContent-Length: 2\r\n\r\nabGET / HTTP/1.0\r\n\r\n"),
        ("cl_then_bad", b"PUT / HTTP/1.1\r\nContent-Length: 2\r\nContent-Length: x\r\n\r\nab"),
        ("expect_mixed_case_value", b"PUT / HTTP/1.1\r\nExpect: 100-Continue\r\nContent-Length: 2\r\n\r\nab"),
        ("te_chunked_and_cl", b"PUT / HTTP/1.1\r\nTransfer-Encoding: chunked\r\nContent-Length: 2\r\n\r\nab"),
        ("get_with_body", b"GET / HTTP/1.1\r\nContent-Length: 2\r\n\r\nab"),
        ("ae_star_q0_with_identity", b"GET / HTTP/1.1\r\nAccept-Encoding: *;q=0, identity\r\n\r\n"),
        ("ae_star_q0", b"GET / HTTP/1.1\r\nAccept-Encoding: gzip, *;q=0\r\n\r\n"),
        ("ae_identity_q0_spaces", b"GET / HTTP/1.1\r\nAccept-Encoding:  identity;q=0 \r\n\r\n"),
        ("ae_identity_q00", b"GET / HTTP/1.1\r\nAccept-Encoding: identity;q=0.0\r\n\r\n"),
        ("bare_cr_in_header_block", b"GET / HTTP/1.1\r\nA: b\r\r\n\r\n"),
        ("body_contains_crlfcrlf", b"PATCH / HTTP/1.1\r\nContent-Length: 8\r\n\r\n\r\n\r\nGET GET /n HTTP/1.1\r\n\r\n"),
    ];
    let mut out: Vec<(&'static str, Vec<u8>)> = v.into_iter().map(|(n, b)| (n, b.to_vec())).collect();
    // large header sections: the grammar bounds each line, not their number or their sum (the payload
    // limit is about the body), so heads of several KiB up to more than the default payload limit are requests
    let big = |nh: usize, hl: usize, body: &[u8], twice: bool| -> Vec<u8> {
        let mut s = Vec::new();
        for rep in 0..(if twice { 2 } else { 1 }) {
            s.extend_from_slice(if body.is_empty() { b"GET" } else { b"PUT" });
            s.extend_from_slice(format!(" /big{} HTTP/1.1\r\n", rep).as_bytes());
            for i in 0..nh {
                let mut l = format!("X-H{}-{}: ", rep, i).into_bytes();
                while l.len() < hl {
                    l.push(b'a' + ((l.len() + i) % 26) as u8);
                }
                s.extend_from_slice(&l);
                s.extend_from_slice(b"\r\n");
            }
            if !body.is_empty() {
                s.extend_from_slice(format!("Content-Length: {}\r\n", body.len()).as_bytes());
            }
            s.extend_from_slice(b"\r\n");
            s.extend_from_slice(body);
        }
        s
    };
    out.push(("head_8k_in_9_lines", big(9, 900, b"", false)));
    out.push(("head_9k_in_9_lines_of_1022", big(9, 1020, b"", true)));
    out.push(("head_10k_in_100_lines", big(100, 100, b"body", true)));
    out.push(("head_30k", big(30, 1000, b"", false)));
    out.push(("head_60k_above_payload_limit", big(60, 1000, b"xy", true)));
    out.push(("head_300_short_lines", big(300, 12, b"", true)));
    out
}

/// The C02 corpus for base item `i`: valid streams, every single-point corruption at every
/// request, double corruptions, limit-boundary declarations, byte-level edits.
pub fn corpus(ctx: &mut Ctx, i: u64, f: &mut dyn FnMut(&mut Ctx, &[u8], usize, &str, &mut Rng)) {
    let quick = ctx.quick();
    let mut rng = ctx.item_rng(0xC02, i);
    let k = rng.range(1, 3);
    let limit = *rng.pick(&[51200usize, 51200, 4096, 64]);
    let opts = GenOpts { limit, body_lens: vec![0, 0, 1, 2, 9, 64, 300, 1100], ..Default::default() };
    let base: Vec<ReqSpec> = (0..k).map(|j| gen::valid_request(&mut rng, j, &opts)).collect();
    let s = render_stream(&base);
    f(ctx, &s, limit, "valid", &mut rng);
    for (ci, c) in CORRUPTIONS.iter().enumerate() {
        if quick && (ci as u64 + i) % 3 != 0 {
            continue;
        }
        for j in 0..k {
            let mut reqs = base.clone();
            if !gen::corrupt(&mut reqs[j], c, &mut rng) {
                continue;
            }
            let s = render_stream(&reqs);
            ctx.rep.count(&format!("corruption_{}", c));
            f(ctx, &s, limit, &format!("{}@req{}", c, j), &mut rng);
        }
    }
    let n_double = if quick { 4 } else { 16 };
    for _ in 0..n_double {
        let mut reqs = base.clone();
        let j1 = rng.below(k);
        let j2 = rng.below(k);
        let c1 = *rng.pick(&CORRUPTIONS);
        let c2 = *rng.pick(&CORRUPTIONS);
        gen::corrupt(&mut reqs[j1], c1, &mut rng);
        gen::corrupt(&mut reqs[j2], c2, &mut rng);
        let s = render_stream(&reqs);
        ctx.rep.count("double_corruptions");
        f(ctx, &s, limit, &format!("{}@req{}+{}@req{}", c1, j1, c2, j2), &mut rng);
    }
    for n in [limit.saturating_sub(1), limit, limit + 1] {
        if n > 5000 {
            continue;
        }
        let mut reqs = base.clone();
        let j = rng.below(k);
        reqs[j].headers.retain(|h| !h.to_ascii_lowercase().starts_with(b"content-length"));
        reqs[j].headers.push(format!("Content-Length: {}", n).into_bytes());
        reqs[j].body = gen::body_bytes(j, n, &mut rng);
        let s = render_stream(&reqs);
        ctx.rep.count("limit_boundary_streams");
        f(ctx, &s, limit, &format!("declared={} limit={}", n, limit), &mut rng);
    }
    let n_edits = if quick { 6 } else { 30 };
    let s0 = render_stream(&base);
    for _ in 0..n_edits {
        let mut s = s0.clone();
        let pos = rng.below(s.len());
        let b = *rng.pick(&[b'\r', b'\n', b' ', b':', 0u8, 0x80, 0xFF, b'\t', b'g']);
        match rng.below(3) {
            0 => s[pos] = b,
            1 => s.insert(pos, b),
            _ => {
                s.remove(pos);
            }
        }
        ctx.rep.count("byte_edits");
        f(ctx, &s, limit, &format!("byte-edit@{}", pos), &mut rng);
    }
}

pub fn run(ctx: &mut Ctx) {
    // fixed edge cases (shard 0 only; they do not depend on the seed)
    if ctx.shard == 0 {
        for (name, s) in edge_streams() {
            for limit in [51200usize, 1] {
                judge(ctx, &s, limit, &[], name, "C02");
                ctx.rep.count("edge_streams");
            }
        }
    }
    // lines of exactly 1023 / 1024 / 1025 bytes (with CR LF) at several stream offsets, read whole and with
    // the read boundary before the CR, between CR and LF, and after the LF: "within the line limit" is
    // a property of the bytes, not of where a read happened to end
    if ctx.shard == 1 % ctx.nshards {
        for kind in 0..2usize {
            for len in [1022usize, 1023, 1024, 1025] {
                for off in [0usize, 1, 19, 100, 1000, 1023, 1024, 1025, 2047, 2048] {
                    if let Some((s, start)) = crate::props::c04::line_stream(kind, len, off) {
                        let end = start + len;
                        for cuts in [vec![], vec![end - 2], vec![end - 1], vec![end], vec![end - 2, end - 1], vec![start.max(1), end - 1]] {
                            let cuts: Vec<usize> = cuts.into_iter().filter(|c| *c > 0 && *c < s.len()).collect();
                            judge(ctx, &s, 51200, &cuts, "line at the length limit", "C02");
                            ctx.rep.count("boundary_lines");
                        }
                    }
                }
            }
        }
    }
    let n_base = ctx.budget(20000, 600000);
    for i in 0..n_base {
        if !ctx.mine(i) {
            continue;
        }
        corpus(ctx, i, &mut |ctx, s, limit, what, rng| {
            if ctx.rep.samples.len() < 5 && (s.len() as u64 + i) % 53 == 0 {
                ctx.rep.sample(J::obj(vec![("what", J::s(what)), ("stream", J::s(&show(s)))]));
            }
            if judge(ctx, s, limit, &[], what, "C02") {
                return;
            }
            let cuts = gen::random_cuts(rng, s.len(), 4);
            if !cuts.is_empty() {
                let gap = *rng.pick(&[Gap::None, Gap::WouldBlock, Gap::Interrupted]);
                judge_gap(ctx, s, limit, &cuts, gap, what, "C02");
            }
        });
    }
}

pub fn replay(ctx: &mut Ctx, case: &J) {
    replay_with(ctx, case, "C02");
}

pub fn replay_with(ctx: &mut Ctx, case: &J, sig_prefix: &str) {
    let stream = case.ghex("stream_hex");
    let limit = case.gu("limit") as usize;
    let cuts: Vec<usize> = case.garr("cuts").iter().filter_map(|c| c.as_u64()).map(|c| c as usize).collect();
    let m = m1(&stream, limit);
    let o = run_stream(Some(limit), &stream, &cuts, Gap::None, false);
    println!("stream ({} bytes): {}", stream.len(), show(&stream));
    println!("model events: {:?}", m.events);
    println!("connection  : delivered={:?} error={:?} fault={:?}", o.delivered, o.error, o.fault);
    ctx.only_case = None;
    judge(ctx, &stream, limit, &cuts, &case.gs("what"), sig_prefix);
}

#[allow(dead_code)]
pub fn unused(_: &mut Rng) {}
