//! C10 — at most 10 connections; excess get 503 and close; dead connections are reaped.
//!
//! Monitor: histories around the capacity boundary with up to 13 clients. After every polling
//! call the process's socket table is read (server-side sockets attributed to clients with
//! getpeername, entries of the epoll set from /proc/self/fdinfo) and the rules below are checked:
//!  (i)   never more than 10 open clients are being served;
//!  (iii) a client may be refused only if the server's set held 10 connections before the call;
//!  (iv)  a refused client receives exactly the documented 503 bytes, then EOF;
//!  (v)   a witness among the ten keeps completing round trips, requests of existing connections
//!        are not lost around a refusal;
//!  (vi)  after a bounded settle, the descriptors held beyond the harness's own are the
//!        listener, the epoll descriptor and one socket per client that is open (or closed but still
//!        owed answers) — no leak, no premature release.
use crate::hist::{self, Act, Applied, HistoryProp, Piece, Size};
use crate::sim::{judge_client, open_fds, Admission, JudgeOpts, PollOut, Sim, FULL_503};
use crate::util::{Rng, J};
use crate::Ctx;

pub struct P10 {
    pub max_clients: usize,
    entries_before: usize,
    baseline: Vec<i32>,
    refused_seen: Vec<usize>,
    accepted_seen: Vec<usize>,
    pub with_kill: bool,
    pub all_pieces: bool,
}

impl P10 {
    pub fn new(max_clients: usize) -> Self {
        P10 { max_clients, entries_before: 0, baseline: Vec::new(), refused_seen: Vec::new(), accepted_seen: Vec::new(), with_kill: false, all_pieces: false }
    }

    fn after_poll(&mut self, ctx: &mut Ctx, sim: &mut Sim) -> Option<(String, String)> {
        let was_accepted: Vec<bool> = sim.gens.iter().map(|g| g.admission == Admission::Accepted).collect();
        let socks = sim.observe_admissions();
        if std::env::var("MHV_DEBUG").is_ok() { debug_dump(sim); }
        // (i)
        let served = socks.iter().filter(|(_, gi)| gi.map(|g| !sim.gens[g].client_closed).unwrap_or(true)).count();
        ctx.rep.max("max_open_clients_served_at_once", served as u64);
        ctx.rep.max("max_connections_held_at_once", socks.len() as u64);
        if served > 10 {
            return Some(("more-than-10-served".into(), format!("{} open clients have a server-side connection at once", served)));
        }
        if socks.len() > 10 {
            return Some(("more-than-10-connections-held".into(), format!("the server holds {} connections at once ({} of them to clients that are still open)", socks.len(), served)));
        }
        // sockets whose peer vanished before the server ever polled cannot be attributed; they must not stay
        ctx.rep.add("sockets_of_clients_that_vanished_before_accept", socks.iter().filter(|(_, gi)| gi.is_none()).count() as u64);
        let _ = was_accepted;
        // (iii) judged per polling call: what the epoll set held before the call that decided it
        for gi in 0..sim.gens.len() {
            if sim.gens[gi].admission == Admission::Refused && !self.refused_seen.contains(&gi) {
                self.refused_seen.push(gi);
                ctx.rep.count("refusals_observed");
                let before = sim.gens[gi].decided_entries;
                let same_poll = sim.gens.iter().filter(|g| g.admission == Admission::Accepted && g.decided_poll == sim.gens[gi].decided_poll).count();
                if before + same_poll < 10 {
                    return Some((
                        "refused-below-capacity".into(),
                        format!("c{}g{} was refused although the server's epoll set held only {} connections before that polling call", sim.gens[gi].client, sim.gens[gi].gen, before),
                    ));
                }
                if served < 10 {
                    ctx.rep.count("refusals_while_dead_connections_still_occupy_slots");
                }
            }
        }
        for gi in 0..sim.gens.len() {
            if sim.gens[gi].admission == Admission::Accepted && !self.accepted_seen.contains(&gi) {
                self.accepted_seen.push(gi);
                ctx.rep.count("acceptances_observed");
                if sim.gens[gi].decided_entries >= 9 {
                    ctx.rep.count("acceptances_into_the_last_slot");
                }
            }
        }
        None
    }

    fn check_refused_bytes(sim: &Sim) -> Option<(String, String)> {
        for g in &sim.gens {
            if g.admission == Admission::Refused || (g.recv.len() >= 12 && &g.recv[..12] == b"HTTP/1.1 503") {
                if g.had_server_socket {
                    return Some(("503-on-served-connection".into(), format!("c{}g{} had a server-side connection and still received the 503 text", g.client, g.gen)));
                }
                if g.recv.len() > FULL_503.len() || g.recv[..] != FULL_503[..g.recv.len()] {
                    return Some(("bad-503".into(), format!("refused client c{}g{} received {:?}", g.client, g.gen, crate::util::show(&g.recv))));
                }
            }
        }
        None
    }
}

impl HistoryProp for P10 {
    fn new_sim(&mut self, _ctx: &mut Ctx) -> Option<Sim> {
        self.entries_before = 0;
        self.refused_seen.clear();
        self.accepted_seen.clear();
        self.baseline = open_fds(128);
        let mut sim = Sim::new(self.with_kill, None).ok()?;
        sim.fd_scan_limit = 128;
        sim.track_entries = true;
        Some(sim)
    }

    fn enabled(&self, sim: &Sim) -> Vec<Act> {
        // only used by the random generator: everything that is applicable
        let mut v = Vec::new();
        for c in 0..self.max_clients {
            match sim.gen_of(c) {
                None => v.push(Act::Connect(c)),
                Some(gi) if c == 0 => {
                    // the witness only performs round trips
                    let g = &sim.gens[gi];
                    if g.admission == Admission::Accepted {
                        v.push(Act::RoundTrip(c));
                    }
                }
                Some(gi) => {
                    let g = &sim.gens[gi];
                    if g.pending_rest.is_some() {
                        v.push(Act::Send(c, Piece::Rest));
                    } else if g.admission != Admission::Refused {
                        v.push(Act::Send(c, Piece::Get));
                        v.push(Act::Send(c, Piece::Two));
                        v.push(Act::Send(c, Piece::Head));
                        if self.all_pieces {
                            for p in [Piece::Put, Piece::Expect, Piece::GetExpect, Piece::Bad, Piece::Big] {
                                v.push(Act::Send(c, p));
                            }
                        }
                    }
                    v.push(Act::Close(c));
                    if self.all_pieces {
                        if !g.shut_rd {
                            v.push(Act::ShutRd(c));
                        }
                        if !g.shut_wr {
                            v.push(Act::ShutWr(c));
                        }
                    }
                    if sim.has_unread(gi) {
                        v.push(Act::Drain(c));
                    }
                }
            }
        }
        if sim.ready() {
            v.push(Act::Poll);
        }
        for i in 0..sim.outstanding.len().min(4) {
            v.push(Act::Respond(i, Size::Small));
            v.push(Act::Respond(i, Size::Large));
        }
        v
    }

    fn after(&mut self, ctx: &mut Ctx, sim: &mut Sim, act: &Act, applied: &Applied) -> Option<(String, String)> {
        let r = match (act, applied) {
            (Act::Poll, Applied::Poll(PollOut::Yielded(_))) => self.after_poll(ctx, sim),
            (Act::Poll, Applied::Poll(PollOut::Err(e))) => Some(("polling-failed".into(), e.clone())),
            (Act::Poll, Applied::Poll(PollOut::Panic(e))) => Some(("polling-failed".into(), e.clone())),
            (Act::RoundTrip(_), Applied::Trip(r)) => match r {
                Ok(_) => {
                    ctx.rep.count("witness_round_trips_completed");
                    if sim.server_side_sockets().len() >= 10 {
                        ctx.rep.count("witness_round_trips_at_capacity");
                    }
                    self.after_poll(ctx, sim)
                }
                Err(e) => Some(("existing-connection-disturbed".into(), format!("witness round trip failed: {}", e))),
            },
            (Act::Drain(c), _) => {
                let gi = sim.gens.iter().rposition(|g| g.client == *c);
                match gi {
                    Some(gi) => judge_client(&sim.gens[gi], &JudgeOpts { allow_500: true }).err().or_else(|| Self::check_refused_bytes(sim)),
                    None => None,
                }
            }
            _ => None,
        };
        self.entries_before = sim.epoll_entries().len();
        if r.is_none() {
            if let Some(d) = sim.idle_with_releasable_connection() {
                return Some(("dead-connection-not-released".into(), d));
            }
        }
        r
    }

    fn finish(&mut self, ctx: &mut Ctx, sim: &mut Sim) -> Option<(String, String)> {
        // bounded settle: poll while ready, drain; no answering (owed answers keep connections alive)
        // progress is judged on what the kernel shows: unread input queued on the server's sockets, bytes the
        // clients have received, yields, admissions, number of connections
        let progress_sig = |sim: &Sim| -> (usize, usize, usize, usize, usize) {
            let socks = sim.server_side_sockets();
            let unread: usize = socks
                .iter()
                .map(|(fd, _)| {
                    let mut n: libc::c_int = 0;
                    // SAFETY: FIONREAD writes an int.
                    unsafe { libc::ioctl(*fd, libc::FIONREAD, &mut n) };
                    n.max(0) as usize
                })
                .sum();
            (
                unread,
                sim.gens.iter().map(|g| g.recv.len()).sum(),
                sim.gens.iter().map(|g| g.yielded.len()).sum(),
                sim.gens.iter().filter(|g| g.admission == Admission::Pending).count(),
                socks.len(),
            )
        };
        let mut quiet = 0;
        for _ in 0..400 {
            sim.drain_all();
            let before = progress_sig(sim);
            match sim.poll() {
                PollOut::Idle => break,
                PollOut::Yielded(_) => {
                    if let Some(v) = self.after_poll(ctx, sim) {
                        return Some(v);
                    }
                    self.entries_before = sim.epoll_entries().len();
                    sim.drain_all();
                    if std::env::var("MHV_DEBUG2").is_ok() {
                        eprintln!("settle poll: before {:?} after {:?} quiet {} listener_ready {}", before, progress_sig(sim), quiet, crate::sim::readable_now(sim.listener_fd));
                    }
                    if progress_sig(sim) == before {
                        quiet += 1;
                    } else {
                        quiet = 0;
                    }
                }
                PollOut::Err(e) | PollOut::Panic(e) => return Some(("polling-failed".into(), e)),
                PollOut::Shutdown => return Some(("polling-failed".into(), "unexpected ShutdownEvent".into())),
            }
            // a closed connection that is still owed answers keeps the epoll descriptor readable: that is
            // permitted, so stop once nothing at all has changed for a few calls
            if quiet >= 4 && sim.gens.iter().any(|g| (g.client_closed || g.shut_wr || g.misbehaved) && sim.owed(g)) {
                break;
            }
        }
        sim.drain_all();
        if let Some(v) = Self::check_refused_bytes(sim) {
            return Some(v);
        }
        for g in &sim.gens {
            if g.admission == Admission::Refused && g.stream.is_some() && !g.shut_rd {
                if g.recv != FULL_503 || !g.eof_seen {
                    return Some(("bad-503".into(), format!("refused client c{}g{}: {} of {} bytes received, EOF seen: {}", g.client, g.gen, g.recv.len(), FULL_503.len(), g.eof_seen)));
                }
                ctx.rep.count("refused_clients_with_exact_503_and_eof");
            }
            if let Err(e) = judge_client(g, &JudgeOpts { allow_500: true }) {
                return Some(e);
            }
        }
        // (v) nothing lost: complete requests of clients that are still open have been yielded
        for g in &sim.gens {
            if g.admission == Admission::Accepted && !g.client_closed && !g.misbehaved {
                for t in g.completed.iter().filter(|t| !t.starts_with('?')) {
                    if !g.yielded.contains(t) {
                        return Some(("request-lost".into(), format!("c{}g{} (open, accepted) sent {}; the server is idle but never yielded it", g.client, g.gen, t)));
                    }
                }
            }
        }
        // (vi) descriptor conservation
        let socks = sim.observe_admissions();
        if socks.iter().any(|(_, gi)| gi.is_none()) {
            return Some(("dead-connection-not-released".into(), "after the settle the server still holds the socket of a client that connected and closed before it was accepted".into()));
        }
        for (gi, g) in sim.gens.iter().enumerate() {
            let has = socks.iter().any(|(_, x)| *x == Some(gi));
            let pending_conn = g.admission == Admission::Pending;
            if g.admission == Admission::Accepted && !g.client_closed && !g.misbehaved && !has {
                return Some(("premature-release".into(), format!("c{}g{} is open and was accepted, but its server-side socket is gone", g.client, g.gen)));
            }
            // (a client that shut down its sending side has disconnected as far as the server can tell: the
            // hang-up is reported and the connection is only kept for the answers it still owes)
            if (g.client_closed || g.shut_wr) && !sim.owed(g) && has {
                return Some(("dead-connection-not-released".into(), format!("c{}g{} closed and is owed nothing, but its server-side socket is still open after the settle", g.client, g.gen)));
            }
            // (a client that shut down its reading side cannot see a refusal, so its Pending status may be stale:
            // the listener itself tells whether somebody is really still waiting)
            if pending_conn && g.stream.is_some() && !g.shut_rd && sim.epoll_entries().len() < 10 && crate::sim::readable_now(sim.listener_fd) && !sim.ready() {
                return Some(("capacity-not-regained".into(), format!("c{}g{} is still waiting on the listener although the server holds only {} connections and is idle", g.client, g.gen, sim.epoll_entries().len())));
            }
        }
        // every descriptor of the process is explained
        let mut explained: Vec<i32> = self.baseline.clone();
        explained.extend(socks.iter().map(|(fd, _)| *fd));
        explained.extend(sim.gens.iter().filter_map(|g| g.stream.as_ref().map(|s| std::os::unix::io::AsRawFd::as_raw_fd(s))));
        explained.push(sim.epfd);
        explained.push(sim.listener_fd);
        if sim.kill_fd >= 0 {
            explained.push(sim.kill_fd);
            if let Some(k) = &sim.kill {
                explained.push(std::os::unix::io::AsRawFd::as_raw_fd(k));
            }
        }
        let extra: Vec<i32> = open_fds(128).into_iter().filter(|fd| !explained.contains(fd)).collect();
        if !extra.is_empty() {
            return Some(("descriptor-leak".into(), format!("descriptors {:?} are open and belong to neither the harness nor a live connection", extra)));
        }
        ctx.rep.count("descriptor_conservation_checks");
        ctx.rep.add("clients_total", sim.gens.len() as u64);
        ctx.rep.add("closed_with_requests_in_flight", sim.gens.iter().filter(|g| g.client_closed && g.yielded.len() > g.supplied.len()).count() as u64);
        // finally: answer everything, and after two more polls nothing but open clients remains
        while !sim.outstanding.is_empty() {
            sim.respond(0, 0);
        }
        // one connection is accepted per polling call and a 1 MiB answer needs several, so the bound is generous;
        // the verdict is only taken once the server has gone idle
        let mut idle = false;
        for _ in 0..400 {
            sim.drain_all();
            if sim.poll() == PollOut::Idle {
                idle = true;
                break;
            }
        }
        if !idle {
            ctx.rep.count("final_settle_bound_hit_no_verdict");
        } else {
            let socks = sim.observe_admissions();
            let open_accepted = sim.gens.iter().filter(|g| g.admission == Admission::Accepted && !g.client_closed).count();
            let dead_left = socks.iter().filter(|(_, gi)| gi.map(|g| sim.gens[g].client_closed || sim.gens[g].shut_wr).unwrap_or(true)).count();
            if dead_left > 0 {
                return Some(("dead-connection-not-released".into(), format!("after all answers were supplied and the server went idle, {} closed clients still have a server-side socket ({} open clients)", dead_left, open_accepted)));
            }
            ctx.rep.count("final_idle_states_without_dead_connections");
        }
        if let Some((step, e)) = sim.api_errors.first() {
            return Some(("polling-failed".into(), format!("at step {}: {}", step, e)));
        }
        None
    }

    fn nontrivial(&self, sim: &Sim) -> bool {
        sim.gens.len() >= 9
    }
}

/// Scripted-random histories around the capacity boundary.
pub fn boundary_history(rng: &mut Rng) -> Vec<Act> {
    let mut acts = Vec::new();
    let target = *rng.pick(&[9usize, 10, 10, 11, 11, 12, 13]);
    let cycles = rng.range(1, 3);
    for cycle in 0..cycles {
        // fill
        let style = rng.below(3);
        for c in 0..target {
            acts.push(Act::Connect(c));
            match style {
                0 => acts.push(Act::Poll),
                1 => {
                    if rng.chance(1, 2) {
                        acts.push(Act::Poll)
                    }
                }
                _ => {}
            }
            if c > 0 && rng.chance(1, 4) {
                acts.push(Act::Send(c, *rng.pick(&[Piece::Get, Piece::Two, Piece::Head])));
            }
        }
        for _ in 0..rng.range(2, 16) {
            acts.push(Act::Poll);
        }
        acts.push(Act::RoundTrip(0));
        // churn at the boundary
        for _ in 0..rng.range(4, 24) {
            let c = 1 + rng.below(target.max(2) - 1);
            acts.push(match rng.below(12) {
                0 | 1 => Act::Close(c),
                2 => Act::Connect(c),
                3 => Act::Connect(rng.below(13)),
                4 => Act::Send(c, Piece::Get),
                5 => Act::Send(c, Piece::Two),
                6 => Act::Respond(0, if rng.chance(1, 3) { Size::Large } else { Size::Small }),
                7 => Act::RoundTrip(0),
                8 => Act::Drain(c),
                _ => Act::Poll,
            });
            // connect and close inside one readiness batch
            if rng.chance(1, 10) {
                let k = rng.below(13);
                acts.push(Act::Connect(k));
                acts.push(Act::Close(k));
            }
        }
        // drain the server: close most clients (some with unread input / unsent output / in flight)
        if cycle + 1 < cycles || rng.chance(1, 2) {
            for c in 1..13 {
                if rng.chance(4, 5) {
                    if rng.chance(1, 4) {
                        acts.push(Act::Send(c, Piece::Get)); // unread input at close
                    }
                    acts.push(Act::Close(c));
                }
            }
            for _ in 0..rng.range(1, 6) {
                acts.push(Act::Poll);
            }
            if rng.chance(1, 2) {
                acts.push(Act::RespondAll(Size::Small));
                acts.push(Act::Poll);
                acts.push(Act::Poll);
            }
        }
    }
    acts
}

pub fn run(ctx: &mut Ctx) {
    let n = ctx.budget(6_000, 400_000) / ctx.nshards;
    let mut rng = ctx.rng.fork(0xC10);
    let mut p = P10::new(13);
    for i in 0..n {
        ctx.begin();
        ctx.rep.evaluations += 1;
        ctx.rep.count("histories_boundary");
        let acts = boundary_history(&mut rng);
        if ctx.rep.samples.len() < 3 && i % 40 == 1 {
            ctx.rep.sample(hist::history_json(&acts[..acts.len().min(60)], vec![("note", J::s("first 60 actions"))]));
        }
        p.with_kill = i % 5 == 0;
        let out = hist::run_history(ctx, &mut p, &acts, true, false);
        if let Some((k, d)) = out.violation {
            ctx.rep.violation(&format!("C10:{}", k), d, hist::history_json(&acts, vec![("with_kill", J::Bool(p.with_kill))]));
            if ctx.rep.violations_total > 30 {
                return;
            }
        }
    }
    // ---- the three ways of leaving (close, shut down sending, shut down both... as far as the alphabet goes) with
    // 0..2 requests in flight, answered before or after the client left, next to 0..9 bystanders
    let mut idx = 0u64;
    for leave in 0..5usize {
        for inflight in 0..3usize {
            for answer_after in [false, true] {
                for bystanders in [0usize, 3, 9] {
                    idx += 1;
                    if idx % ctx.nshards != ctx.shard {
                        continue;
                    }
                    ctx.begin();
                    ctx.rep.evaluations += 1;
                    ctx.rep.count("histories_leaving");
                    let mut acts = Vec::new();
                    for c in 0..=bystanders {
                        acts.push(Act::Connect(c));
                        acts.push(Act::Poll);
                    }
                    match inflight {
                        0 => {}
                        1 => acts.push(Act::Send(0, Piece::Get)),
                        _ => acts.push(Act::Send(0, Piece::Two)),
                    }
                    acts.push(Act::Poll);
                    acts.push(Act::Poll);
                    if !answer_after {
                        acts.push(Act::RespondAll(Size::Small));
                        acts.push(Act::Poll);
                    }
                    match leave {
                        0 => acts.push(Act::Close(0)),
                        3 => {
                            // the application finds out: it flushes to a client that has just gone
                            acts.push(Act::RespondAll(Size::Small));
                            acts.push(Act::Close(0));
                            acts.push(Act::Flush);
                        }
                        4 => {
                            acts.push(Act::RespondAll(Size::Medium));
                            acts.push(Act::ShutRd(0));
                            acts.push(Act::Flush);
                            acts.push(Act::Flush);
                            acts.push(Act::Close(0));
                        }
                        1 => acts.push(Act::ShutWr(0)),
                        _ => {
                            acts.push(Act::ShutWr(0));
                            acts.push(Act::Poll);
                            acts.push(Act::ShutRd(0));
                        }
                    }
                    acts.push(Act::Poll);
                    if answer_after {
                        acts.push(Act::RespondAll(Size::Small));
                    }
                    acts.push(Act::Poll);
                    acts.push(Act::Poll);
                    // a newcomer takes the seat
                    acts.push(Act::Connect(bystanders + 1));
                    acts.push(Act::Poll);
                    acts.push(Act::RoundTrip(bystanders + 1));
                    let mut p = P10::new(13);
                    let out = hist::run_history(ctx, &mut p, &acts, true, false);
                    if let Some((k, d)) = out.violation {
                        ctx.rep.violation(&format!("C10:{}", k), d, hist::history_json(&acts, vec![("with_kill", J::Bool(false))]));
                    }
                }
            }
        }
    }
    // free-form random histories over the whole alphabet with 12 clients
    let mut p = P10::new(12);
    let mut choose = |rng: &mut Rng, _sim: &Sim, en: &[Act]| -> Option<Act> {
        if en.is_empty() {
            return None;
        }
        let w: Vec<usize> = en
            .iter()
            .map(|a| match a {
                Act::Connect(_) => 6,
                Act::Poll => 10,
                Act::Close(_) => 1,
                Act::RoundTrip(_) => 3,
                _ => 1,
            })
            .collect();
        let total: usize = w.iter().sum();
        let mut x = rng.below(total);
        for (i, wi) in w.iter().enumerate() {
            if x < *wi {
                return Some(en[i].clone());
            }
            x -= wi;
        }
        None
    };
    hist::random_histories(ctx, &mut p, n / 2 + 1, 60, 200, "C10", &mut choose);
    let mut p = P10::new(12);
    p.all_pieces = true;
    hist::random_histories(ctx, &mut p, n / 4 + 1, 60, 200, "C10", &mut choose);
}

pub fn replay(ctx: &mut Ctx, case: &J) {
    let mut p = P10::new(13);
    p.with_kill = matches!(case.get("with_kill"), Some(J::Bool(true)));
    hist::replay_history(ctx, &mut p, case, "C10");
}

#[allow(dead_code)]
pub fn debug_dump(sim: &Sim) {
    for (fd, gi) in sim.server_side_sockets() {
        eprintln!("sock fd={} gi={:?}", fd, gi);
    }
    for g in &sim.gens {
        eprintln!("gen c{}g{} fd={:?} adm={:?}", g.client, g.gen, g.stream.as_ref().map(|s| std::os::unix::io::AsRawFd::as_raw_fd(s)), g.admission);
    }
    eprintln!("open fds {:?}", open_fds(64));
    eprintln!("probe {:?}", sim.server.verif_probe().iter().map(|c| (c.fd, c.state, c.in_flight, c.connection.response_queue, c.connection.response_buffer)).collect::<Vec<_>>());
    eprintln!("epoll ready {} entries {:?}", sim.ready(), sim.epoll_entries());
}
