//! C16 — token and URI functions are exact, case-sensitive and round-trip.
//!
//! Monitor: bounded-exhaustive enumeration of inputs through the public functions against the
//! canonical tables and the abs-path definition (M8).
use micro_http::{MediaType, Method, Request, StatusCode, Version};

use crate::conn::guarded;
use crate::util::{show, J};
use crate::Ctx;

/// M8: the absolute path of a URI, from the statement.
pub fn abs_path_model(u: &str) -> &str {
    if u.starts_with('/') {
        return u;
    }
    if let Some(rest) = u.strip_prefix("http://") {
        return match rest.find('/') {
            Some(i) => &rest[i..],
            None => "",
        };
    }
    ""
}

fn method_model(b: &[u8]) -> Option<u8> {
    match b {
        b"GET" => Some(0),
        b"PUT" => Some(1),
        b"PATCH" => Some(2),
        _ => None,
    }
}
fn version_model(b: &[u8]) -> Option<u8> {
    match b {
        b"HTTP/1.0" => Some(0),
        b"HTTP/1.1" => Some(1),
        _ => None,
    }
}
/// media types are matched modulo surrounding (Unicode) whitespace; input must be UTF-8
fn media_model(b: &[u8]) -> Option<u8> {
    let s = std::str::from_utf8(b).ok()?;
    match s.trim() {
        "text/plain" => Some(0),
        "application/json" => Some(1),
        _ => None,
    }
}

fn mcode(m: Method) -> u8 {
    crate::conn::method_code(m)
}
fn vcode(v: Version) -> u8 {
    crate::conn::version_code(v)
}
fn mtcode(m: MediaType) -> u8 {
    crate::conn::media_code(m)
}

fn token_case(kind: &str, input: &[u8]) -> J {
    J::obj(vec![("family", J::s("token")), ("function", J::s(kind)), ("input_hex", J::hexs(input)), ("input_show", J::s(&show(input)))])
}

fn check_token(ctx: &mut Ctx, kind: &str, input: &[u8]) -> bool {
    if !ctx.begin() {
        return false;
    }
    ctx.rep.evaluations += 1;
    let (got, want): (Result<Option<u8>, String>, Option<u8>) = match kind {
        "Method::try_from" => (guarded(|| Method::try_from(input).ok().map(mcode)), method_model(input)),
        "Version::try_from" => (guarded(|| Version::try_from(input).ok().map(vcode)), version_model(input)),
        _ => (guarded(|| MediaType::try_from(input).ok().map(mtcode)), media_model(input)),
    };
    if want.is_some() {
        ctx.rep.distinct(crate::util::Fp::new().s(kind).bytes(input).0);
        ctx.rep.count("tokens_accepted");
    } else {
        ctx.rep.count("tokens_rejected");
    }
    match got {
        Err(p) => {
            ctx.rep.violation(&format!("C16:panic:{}", kind), format!("{} panicked on {:?}: {}", kind, show(input), p), token_case(kind, input));
            true
        }
        Ok(g) if g != want => {
            ctx.rep.violation(
                &format!("C16:token:{}", kind),
                format!("{}({:?}) = {:?}, canonical table says {:?}", kind, show(input), g, want),
                token_case(kind, input),
            );
            true
        }
        _ => false,
    }
}

fn check_uri(ctx: &mut Ctx, uri: &str) -> bool {
    if !ctx.begin() {
        return false;
    }
    ctx.rep.evaluations += 1;
    let mut req = Vec::with_capacity(uri.len() + 20);
    req.extend_from_slice(b"GET ");
    req.extend_from_slice(uri.as_bytes());
    req.extend_from_slice(b" HTTP/1.1\r\n\r\n");
    let got = guarded(|| Request::try_from(&req, None).map(|r| r.uri().get_abs_path().to_string()));
    let want = abs_path_model(uri);
    let case = J::obj(vec![("family", J::s("uri")), ("uri", J::s(uri))]);
    match got {
        Err(p) => {
            ctx.rep.violation("C16:panic:get_abs_path", format!("URI {:?}: {}", uri, p), case);
            true
        }
        Ok(Err(e)) => {
            ctx.rep.violation("C16:uri-rejected", format!("a non-empty UTF-8 URI without spaces was rejected: {:?}: {:?}", uri, e), case);
            true
        }
        Ok(Ok(g)) => {
            if !want.is_empty() {
                ctx.rep.distinct(crate::util::Fp::new().s("uri").s(uri).0);
                ctx.rep.count("uris_with_nonempty_abs_path");
                if uri.starts_with("http://") {
                    ctx.rep.count("uris_absolute_form_with_path");
                }
            }
            let derived_ok = g.is_empty() || (g.starts_with('/') && uri.ends_with(g.as_str()));
            if g != want || !derived_ok {
                ctx.rep.violation("C16:abs-path", format!("get_abs_path({:?}) = {:?}, definition says {:?}", uri, g, want), case);
                return true;
            }
            false
        }
    }
}

const METHOD_ALPHABET: [u8; 19] = [b'G', b'E', b'T', b'P', b'U', b'A', b'C', b'H', b'g', b'e', b't', b'p', b'u', b'a', b'c', b'h', b' ', 0, 0xC3];
const URI_ALPHABET: [&str; 9] = ["h", "t", "p", ":", "/", "a", ".", "%", "\u{e9}"];

pub fn run(ctx: &mut Ctx) {
    let quick = ctx.quick();
    let mut bad = 0;
    // ---- all strings of length <= 5 over the 19-symbol alphabet through Method::try_from
    let mut idx = 0u64;
    for len in 0..=5usize {
        let total = 19u64.pow(len as u32);
        for n in 0..total {
            idx += 1;
            if !ctx.mine(idx) {
                continue;
            }
            let mut x = n;
            let mut s = Vec::with_capacity(len);
            for _ in 0..len {
                s.push(METHOD_ALPHABET[(x % 19) as usize]);
                x /= 19;
            }
            ctx.rep.count("method_strings_enumerated");
            if check_token(ctx, "Method::try_from", &s) {
                bad += 1;
            }
            // the same strings are also non-members (or members) of the other tables
            if len <= 3 {
                check_token(ctx, "Version::try_from", &s);
                check_token(ctx, "MediaType::try_from", &s);
            }
            if bad > 20 {
                return;
            }
        }
    }
    // ---- all single-byte substitutions, insertions and deletions of every canonical token
    let tokens: [(&str, &[u8]); 7] = [
        ("Method::try_from", b"GET"),
        ("Method::try_from", b"PUT"),
        ("Method::try_from", b"PATCH"),
        ("Version::try_from", b"HTTP/1.0"),
        ("Version::try_from", b"HTTP/1.1"),
        ("MediaType::try_from", b"text/plain"),
        ("MediaType::try_from", b"application/json"),
    ];
    if ctx.shard == 0 {
        for (kind, tok) in tokens.iter() {
            check_token(ctx, kind, tok);
            for p in 0..tok.len() {
                let mut d = tok.to_vec();
                d.remove(p);
                check_token(ctx, kind, &d);
                ctx.rep.count("token_edits");
                for b in 0..=255u8 {
                    let mut s = tok.to_vec();
                    s[p] = b;
                    check_token(ctx, kind, &s);
                    ctx.rep.count("token_edits");
                }
            }
            for p in 0..=tok.len() {
                for b in 0..=255u8 {
                    let mut s = tok.to_vec();
                    s.insert(p, b);
                    check_token(ctx, kind, &s);
                    ctx.rep.count("token_edits");
                }
            }
            // cross-table: a token of one table is no member of the others
            for (k2, _) in tokens.iter() {
                check_token(ctx, k2, tok);
            }
        }
        // surrounding-whitespace variants for media types
        for tok in ["text/plain", "application/json"] {
            for pre in ["", " ", "\t", "  ", "\u{a0}", "\u{2003}", "\r\n"] {
                for post in ["", " ", "\t ", "\u{a0}", "\n", ";q=1", " ;"] {
                    let s = format!("{}{}{}", pre, tok, post);
                    check_token(ctx, "MediaType::try_from", s.as_bytes());
                    ctx.rep.count("media_whitespace_variants");
                }
            }
            // inner whitespace / case must not match
            check_token(ctx, "MediaType::try_from", tok.to_uppercase().as_bytes());
            check_token(ctx, "MediaType::try_from", tok.replace('/', " / ").as_bytes());
        }
        // round trips and accessors
        ctx.begin();
        for m in [Method::Get, Method::Put, Method::Patch] {
            if Method::try_from(m.raw()).ok() != Some(m) || m.to_str().as_bytes() != m.raw() {
                ctx.rep.violation("C16:round-trip", format!("Method {:?} does not round-trip through raw()/to_str()", m), J::obj(vec![("family", J::s("roundtrip"))]));
            }
            ctx.rep.count("round_trips");
        }
        for v in [Version::Http10, Version::Http11] {
            if Version::try_from(v.raw()).ok() != Some(v) {
                ctx.rep.violation("C16:round-trip", format!("Version {:?} does not round-trip", v), J::obj(vec![("family", J::s("roundtrip"))]));
            }
            ctx.rep.count("round_trips");
        }
        for t in [MediaType::PlainText, MediaType::ApplicationJson] {
            if MediaType::try_from(t.as_str().as_bytes()).ok() != Some(t) {
                ctx.rep.violation("C16:round-trip", format!("MediaType {:?} does not round-trip", t), J::obj(vec![("family", J::s("roundtrip"))]));
            }
            ctx.rep.count("round_trips");
        }
        // status codes: eleven distinct three-digit numbers, each the documented one
        let codes: [(StatusCode, &[u8; 3]); 11] = [
            (StatusCode::Continue, b"100"),
            (StatusCode::OK, b"200"),
            (StatusCode::NoContent, b"204"),
            (StatusCode::BadRequest, b"400"),
            (StatusCode::Unauthorized, b"401"),
            (StatusCode::NotFound, b"404"),
            (StatusCode::MethodNotAllowed, b"405"),
            (StatusCode::PayloadTooLarge, b"413"),
            (StatusCode::InternalServerError, b"500"),
            (StatusCode::NotImplemented, b"501"),
            (StatusCode::ServiceUnavailable, b"503"),
        ];
        let mut seen = std::collections::HashSet::new();
        for (c, want) in codes.iter() {
            let raw = c.raw();
            ctx.rep.count("status_codes");
            if raw != *want || !raw.iter().all(|d| d.is_ascii_digit()) || !seen.insert(*raw) {
                ctx.rep.violation("C16:status-code", format!("{:?}.raw() = {:?}, documented {:?} (or duplicate)", c, show(raw), show(*want)), J::obj(vec![("family", J::s("status"))]));
            }
        }
        ctx.rep.evaluations += 16;
        ctx.rep.sample(J::obj(vec![("family", J::s("token")), ("function", J::s("Version::try_from")), ("input", J::s("HTTP/1.1 with byte 7 replaced by every value 0..255"))]));
    }
    // ---- every status code written through sinks of every kind (a Vec; a sink that only implements `write`
    // and takes 1, 2, 5 bytes per call): the status line carries the code's own three digits every time
    if ctx.shard == 0 {
        struct Narrow {
            out: Vec<u8>,
            k: usize,
        }
        impl std::io::Write for Narrow {
            fn write(&mut self, b: &[u8]) -> std::io::Result<usize> {
                let n = self.k.min(b.len());
                self.out.extend_from_slice(&b[..n]);
                Ok(n)
            }
            fn flush(&mut self) -> std::io::Result<()> {
                Ok(())
            }
        }
        let codes: [(micro_http::StatusCode, &str); 11] = [
            (micro_http::StatusCode::Continue, "100"),
            (micro_http::StatusCode::OK, "200"),
            (micro_http::StatusCode::NoContent, "204"),
            (micro_http::StatusCode::BadRequest, "400"),
            (micro_http::StatusCode::Unauthorized, "401"),
            (micro_http::StatusCode::NotFound, "404"),
            (micro_http::StatusCode::MethodNotAllowed, "405"),
            (micro_http::StatusCode::PayloadTooLarge, "413"),
            (micro_http::StatusCode::InternalServerError, "500"),
            (micro_http::StatusCode::NotImplemented, "501"),
            (micro_http::StatusCode::ServiceUnavailable, "503"),
        ];
        for (code, digits) in codes.iter() {
            for (vi, v) in [micro_http::Version::Http10, micro_http::Version::Http11].iter().enumerate() {
                for k in [usize::MAX, 1, 2, 5, 8, 9, 12] {
                    ctx.begin();
                    ctx.rep.evaluations += 1;
                    ctx.rep.count("status_lines_serialized");
                    let r = micro_http::Response::new(*v, *code);
                    let mut sink = Narrow { out: Vec::new(), k };
                    let res = guarded(|| r.write_all(&mut sink));
                    let want = format!("HTTP/1.{} {} \r\n", vi, digits);
                    if !matches!(res, Ok(Ok(()))) || !sink.out.starts_with(want.as_bytes()) {
                        ctx.rep.violation(
                            "C16:status-line",
                            format!("status {} written through a sink taking {} bytes per call: result {:?}, bytes start with {:?}, expected {:?}", digits, k, res.map(|r| r.map_err(|e| e.to_string())), crate::util::show(&sink.out[..sink.out.len().min(24)]), want),
                            J::obj(vec![("family", J::s("status-line")), ("code", J::s(digits)), ("k", J::u(k.min(1 << 20) as u64))]),
                        );
                        bad += 1;
                    }
                }
            }
        }
    }
    // ---- all URIs of length <= 9 (thorough) / 7 (quick) over the 9-symbol alphabet
    let max_len = if quick { 7 } else { 10 };
    let mut idx = 0u64;
    for len in 1..=max_len {
        let total = 9u64.pow(len as u32);
        for n in 0..total {
            idx += 1;
            if !ctx.mine(idx) {
                continue;
            }
            let mut x = n;
            let mut s = String::with_capacity(len + 4);
            for _ in 0..len {
                s.push_str(URI_ALPHABET[(x % 9) as usize]);
                x /= 9;
            }
            ctx.rep.count("uris_enumerated");
            if ctx.rep.samples.len() < 5 && n % 1_000_003 == 77 {
                ctx.rep.sample(J::obj(vec![("family", J::s("uri")), ("uri", J::s(&s)), ("abs_path", J::s(abs_path_model(&s)))]));
            }
            if check_uri(ctx, &s) {
                bad += 1;
                if bad > 20 {
                    return;
                }
            }
        }
    }
    // ---- the other bytes that mean something in a URI (`?`, `#`, `@`, `[`, `]`, `;`, `=`, `&`, `\\`, SP is not
    // possible): every string of length <= 6 over {a / ? # : . @} behind each scheme-like prefix. The
    // definition knows no delimiter but the first '/' after the authority.
    const DELIMS: [&str; 7] = ["a", "/", "?", "#", ":", ".", "@"];
    let dl = if quick { 5 } else { 7 };
    for pre in ["http://", "http:/", "", "/", "http://h", "//"] {
        for len in 0..=dl {
            for n in 0..7u64.pow(len as u32) {
                idx += 1;
                if !ctx.mine(idx) {
                    continue;
                }
                let mut x = n;
                let mut s = String::from(pre);
                for _ in 0..len {
                    s.push_str(DELIMS[(x % 7) as usize]);
                    x /= 7;
                }
                if s.is_empty() {
                    continue;
                }
                ctx.rep.count("uris_with_delimiters");
                if check_uri(ctx, &s) {
                    bad += 1;
                    if bad > 20 {
                        return;
                    }
                }
            }
        }
    }
    // raw bytes: every sample URI with an invalid-UTF-8 byte (or a truncated multi-byte sequence) at every position
    if ctx.shard == 1 % ctx.nshards {
        for base in ["/a/b", "http://h/a", "http://ab/c", "http://h:80/x/y", "http://", "http://a", "a/b", "http:///p", "/\u{e9}/x"] {
            let b = base.as_bytes();
            for pos in 0..=b.len() {
                for ins in [&[0xFFu8][..], &[0xC3], &[0x80], &[0xE2, 0x82], &[0xC3, 0x28]] {
                    let mut u = b.to_vec();
                    u.splice(pos..pos, ins.iter().cloned());
                    check_raw_uri(ctx, &u);
                    if pos < b.len() {
                        let mut u = b.to_vec();
                        u[pos] = ins[0];
                        check_raw_uri(ctx, &u);
                    }
                }
            }
        }
    }
    // the enumeration never reaches "http://" + authority + path at length <= 9 with much variety:
    // add the systematic family http://<authority><path> over small authority/path sets
    if ctx.shard == 0 {
        for auth in ["", "h", "a.a", "h:8080", "a%", "\u{e9}", "http:", "http://"] {
            for path in ["", "/", "/a", "//", "/a/b", "/http://x", "/%2F", "/\u{e9}"] {
                for pre in ["http://", "http:/", "HTTP://", "https://", "http:///", ""] {
                    let u = format!("{}{}{}", pre, auth, path);
                    if u.is_empty() {
                        continue;
                    }
                    ctx.rep.count("uris_systematic");
                    check_uri(ctx, &u);
                }
            }
        }
    }
}

/// A URI given as raw bytes (possibly invalid UTF-8): the request must be rejected, or else the
/// absolute path must still be empty or a '/'-prefixed suffix of the URI (and never panic).
fn check_raw_uri(ctx: &mut Ctx, uri: &[u8]) -> bool {
    if !ctx.begin() {
        return false;
    }
    ctx.rep.evaluations += 1;
    ctx.rep.count("raw_uris_with_invalid_utf8");
    let mut req = b"GET ".to_vec();
    req.extend_from_slice(uri);
    req.extend_from_slice(b" HTTP/1.1\r\n\r\n");
    let case = J::obj(vec![("family", J::s("raw-uri")), ("uri_hex", J::hexs(uri)), ("uri_show", J::s(&show(uri)))]);
    let got = guarded(|| Request::try_from(&req, None).map(|r| (crate::conn::uri_text(&r), r.uri().get_abs_path().to_string())));
    match got {
        Err(p) => {
            ctx.rep.violation("C16:panic:get_abs_path", format!("URI {:?}: {}", show(uri), p), case);
            true
        }
        Ok(Err(_)) => false,
        Ok(Ok((text, path))) => {
            ctx.rep.count("raw_uris_accepted");
            if !(path.is_empty() || (path.starts_with('/') && text.ends_with(path.as_str()))) {
                ctx.rep.violation("C16:abs-path", format!("URI bytes {:?} were accepted as {:?} and get_abs_path() = {:?}, which is neither empty nor a '/'-prefixed suffix", show(uri), text, path), case);
                return true;
            }
            false
        }
    }
}

pub fn replay(ctx: &mut Ctx, case: &J) {
    ctx.only_case = None;
    if case.gs("family") == "raw-uri" {
        check_raw_uri(ctx, &case.ghex("uri_hex"));
        return;
    }
    match case.gs("family").as_str() {
        "token" => {
            let input = case.ghex("input_hex");
            check_token(ctx, &case.gs("function"), &input);
        }
        "uri" => {
            check_uri(ctx, &case.gs("uri"));
        }
        _ => println!("this finding is re-checked by running the check itself"),
    }
}
