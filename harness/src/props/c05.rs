//! C05 — serialized responses are well-formed and self-delimiting (Content-Length = body).
//!
//! Monitors: (1) layout model M4 folds the builder calls into the expected bytes; (2) an
//! independent response reader (M3) re-reads concatenations of serialized responses and must
//! recover every response exactly and end at the end; (3) the same response written into sinks
//! that accept 1..k bytes per call and inject EINTR must produce identical bytes.
use std::io::Write;

use micro_http::{Body, MediaType, Method, Response, StatusCode, Version};

use crate::conn::guarded;
use crate::model::read_all_responses;
use crate::util::{show, Fp, Rng, J};
use crate::Ctx;

const CODES: [(StatusCode, u16); 11] = [
    (StatusCode::Continue, 100),
    (StatusCode::OK, 200),
    (StatusCode::NoContent, 204),
    (StatusCode::BadRequest, 400),
    (StatusCode::Unauthorized, 401),
    (StatusCode::NotFound, 404),
    (StatusCode::MethodNotAllowed, 405),
    (StatusCode::PayloadTooLarge, 413),
    (StatusCode::InternalServerError, 500),
    (StatusCode::NotImplemented, 501),
    (StatusCode::ServiceUnavailable, 503),
];

/// The concrete alphabet of 18 builder calls (+ call 18: a 64 KiB body, used by the random family).
pub const N_CALLS: usize = 18;

fn body_shape(i: usize) -> Vec<u8> {
    match i {
        0 => Vec::new(),
        1 => b"hello".to_vec(),
        2 => b"a\r\n\r\nb\r\n\r\n".to_vec(),
        3 => b"HTTP/1.1 200 \r\nServer: fake\r\nConnection: keep-alive\r\nContent-Type: text/plain\r\nContent-Length: 3\r\n\r\nabc".to_vec(),
        4 => (0..2048u32).map(|k| (k.wrapping_mul(2654435761) >> 13) as u8).collect(),
        5 => b"\n".to_vec(),
        _ => (0..65536u32).map(|k| (k.wrapping_mul(40503) >> 7) as u8).collect(),
    }
}

fn allow_list(i: usize) -> Vec<Method> {
    match i {
        0 => vec![],
        1 => vec![Method::Get],
        _ => vec![Method::Put, Method::Patch, Method::Get],
    }
}

fn call_name(c: usize) -> String {
    match c {
        c if c >= 1000 => format!("set_body({} bytes)", c - 1000),
        0..=5 => format!("set_body(shape{})", c),
        6 => "set_content_type(text/plain)".into(),
        7 => "set_content_type(application/json)".into(),
        8 => "set_deprecation".into(),
        9 => "set_encoding".into(),
        10 => "set_server(Firecracker API)".into(),
        11 => "set_server(srv/2 (x; y))".into(),
        12..=14 => format!("set_allow(list{})", c - 12),
        15 => "allow_method(GET)".into(),
        16 => "allow_method(PUT)".into(),
        17 => "allow_method(PATCH)".into(),
        19 => "set_content_length(None)".into(),
        20 => "set_content_length(Some(7))".into(),
        21 => "set_content_length(Some(current body length))".into(),
        _ => "set_body(64KiB)".into(),
    }
}

/// M4: what the bytes must be.
#[derive(Clone)]
struct Shadow {
    version: u8,
    code: u16,
    body: Option<Vec<u8>>,
    length: Option<usize>,
    /// None until set explicitly: the property does not pin the default value
    ctype: Option<&'static str>,
    deprecation: bool,
    encoding: bool,
    /// None until set explicitly
    server: Option<String>,
    allow: Vec<&'static str>,
}

impl Shadow {
    fn new(version: u8, code: u16) -> Self {
        Shadow {
            version,
            code,
            body: None,
            length: if code == 100 || code == 204 { None } else { Some(0) },
            ctype: None,
            deprecation: false,
            encoding: false,
            server: None,
            allow: Vec::new(),
        }
    }
    fn expected(&self) -> Vec<u8> {
        let mut o = Vec::new();
        o.extend_from_slice(if self.version == 0 { b"HTTP/1.0" } else { b"HTTP/1.1" });
        o.extend_from_slice(format!(" {:03} \r\n", self.code).as_bytes());
        o.extend_from_slice(format!("Server: {}\r\n", self.server.as_deref().unwrap_or("?")).as_bytes());
        o.extend_from_slice(b"Connection: keep-alive\r\n");
        if !self.allow.is_empty() {
            o.extend_from_slice(format!("Allow: {}\r\n", self.allow.join(", ")).as_bytes());
        }
        if self.deprecation {
            o.extend_from_slice(b"Deprecation: true\r\n");
        }
        if let Some(n) = self.length {
            o.extend_from_slice(format!("Content-Type: {}\r\n", self.ctype.unwrap_or("?")).as_bytes());
            o.extend_from_slice(format!("Content-Length: {}\r\n", n).as_bytes());
            if self.encoding {
                o.extend_from_slice(b"Accept-Encoding: identity\r\n");
            }
        }
        o.extend_from_slice(b"\r\n");
        if let Some(b) = &self.body {
            o.extend_from_slice(b);
        }
        o
    }
}

fn mname(m: Method) -> &'static str {
    match m {
        Method::Get => "GET",
        Method::Put => "PUT",
        Method::Patch => "PATCH",
    }
}

fn apply(r: &mut Response, s: &mut Shadow, c: usize) {
    match c {
        c if c >= 1000 => {
            // a body of exactly c - 1000 bytes (size sweeps: totals around pages and powers of two)
            let n = c - 1000;
            let b: Vec<u8> = (0..n).map(|k| b'A' + ((k * 7 + n) % 53) as u8).collect();
            s.length = Some(b.len());
            s.body = Some(b.clone());
            r.set_body(Body::new(b));
        }
        0..=5 | 18 => {
            let b = body_shape(if c == 18 { 6 } else { c });
            s.length = Some(b.len());
            s.body = Some(b.clone());
            r.set_body(Body::new(b));
        }
        6 => {
            r.set_content_type(MediaType::PlainText);
            s.ctype = Some("text/plain");
        }
        7 => {
            r.set_content_type(MediaType::ApplicationJson);
            s.ctype = Some("application/json");
        }
        8 => {
            r.set_deprecation();
            s.deprecation = true;
        }
        9 => {
            r.set_encoding();
            s.encoding = true;
        }
        10 => {
            r.set_server("Firecracker API");
            s.server = Some("Firecracker API".into());
        }
        11 => {
            r.set_server("srv/2 (x; y)");
            s.server = Some("srv/2 (x; y)".into());
        }
        12..=14 => {
            let l = allow_list(c - 12);
            s.allow = l.iter().map(|m| mname(*m)).collect();
            r.set_allow(l);
        }
        15 => {
            r.allow_method(Method::Get);
            s.allow.push("GET");
        }
        16 => {
            r.allow_method(Method::Put);
            s.allow.push("PUT");
        }
        17 => {
            r.allow_method(Method::Patch);
            s.allow.push("PATCH");
        }
        19 => {
            r.set_content_length(None);
            s.length = None;
        }
        20 => {
            r.set_content_length(Some(7));
            s.length = Some(7);
        }
        _ => {
            let n = s.body.as_ref().map(|b| b.len()).unwrap_or(0);
            r.set_content_length(Some(n as i32));
            s.length = Some(n);
        }
    }
}

fn case_json(version: u8, code_idx: usize, calls: &[usize]) -> J {
    J::obj(vec![
        ("version", J::u(version as u64)),
        ("status", J::u(CODES[code_idx].1 as u64)),
        ("code_idx", J::u(code_idx as u64)),
        ("calls", J::Arr(calls.iter().map(|c| J::s(&call_name(*c))).collect())),
        ("calls_idx", J::Arr(calls.iter().map(|c| J::u(*c as u64)).collect())),
    ])
}

/// A sink that accepts at most `k` bytes per call and reports EINTR every `intr`-th call.
struct StingySink {
    out: Vec<u8>,
    k: usize,
    intr: usize,
    calls: usize,
}
impl Write for StingySink {
    fn write(&mut self, buf: &[u8]) -> std::io::Result<usize> {
        self.calls += 1;
        if self.intr > 0 && self.calls % self.intr == 0 {
            return Err(std::io::Error::from_raw_os_error(libc::EINTR));
        }
        let n = self.k.min(buf.len());
        self.out.extend_from_slice(&buf[..n]);
        Ok(n)
    }
    fn flush(&mut self) -> std::io::Result<()> {
        Ok(())
    }
}

pub fn build(version: u8, code_idx: usize, calls: &[usize]) -> (Response, Vec<u8>, Shadow) {
    let v = if version == 0 { Version::Http10 } else { Version::Http11 };
    let mut r = Response::new(v, CODES[code_idx].0);
    let mut s = Shadow::new(version, CODES[code_idx].1);
    for c in calls {
        apply(&mut r, &mut s, *c);
    }
    // defaults the property does not pin (server identity, content type) are taken from the output
    let mut out = Vec::new();
    let _ = r.write_all(&mut out);
    // (read line by line: an explicit length that differs from the body makes the response incomplete
    // for a framing reader, which must not hide the defaults)
    let head_end = out.windows(4).position(|w| w == b"\r\n\r\n").unwrap_or(out.len());
    for line in out[..head_end].split(|b| *b == b'\n') {
        let line = line.strip_suffix(b"\r").unwrap_or(line);
        if let Some(v) = line.strip_prefix(b"Server: ") {
            if s.server.is_none() && !v.contains(&b'\r') {
                s.server = Some(String::from_utf8_lossy(v).to_string());
            }
        }
        if let Some(v) = line.strip_prefix(b"Content-Type: ") {
            if s.ctype.is_none() {
                match v {
                    b"text/plain" => s.ctype = Some("text/plain"),
                    b"application/json" => s.ctype = Some("application/json"),
                    _ => {}
                }
            }
        }
    }
    let exp = s.expected();
    (r, exp, s)
}

/// Checks one response. Returns its serialization when everything is fine.
pub fn check_one(ctx: &mut Ctx, version: u8, code_idx: usize, calls: &[usize], sinks: bool) -> Option<Vec<u8>> {
    if !ctx.begin() {
        return None;
    }
    ctx.rep.evaluations += 1;
    let built = guarded(|| {
        let (r, exp, s) = build(version, code_idx, calls);
        let mut out = Vec::new();
        r.write_all(&mut out).map(|_| (r, out, exp, s))
    });
    let (r, out, exp, s) = match built {
        Err(p) => {
            ctx.rep.violation("C05:panic", format!("building/serializing panicked: {}", p), case_json(version, code_idx, calls));
            return None;
        }
        Ok(Err(e)) => {
            ctx.rep.violation("C05:write-error", format!("write_all into a Vec failed: {}", e), case_json(version, code_idx, calls));
            return None;
        }
        Ok(Ok(x)) => x,
    };
    if calls.iter().any(|c| *c <= 5 || *c == 18) {
        let mut f = Fp::new().u(version as u64).u(code_idx as u64);
        for c in calls {
            f = f.u(*c as u64);
        }
        ctx.rep.distinct(f.0);
        ctx.rep.count("responses_with_body_set");
    }
    if s.length.is_none() {
        ctx.rep.count("responses_without_content_length");
    }
    if out != exp {
        let i = (0..out.len().min(exp.len())).find(|i| out[*i] != exp[*i]).unwrap_or(out.len().min(exp.len()));
        let lo = i.saturating_sub(40);
        ctx.rep.violation(
            "C05:layout",
            format!(
                "serialization differs from the documented layout at byte {}: got ...{:?}, expected ...{:?}",
                i,
                show(&out[lo..out.len().min(i + 60)]),
                show(&exp[lo..exp.len().min(i + 60)])
            ),
            case_json(version, code_idx, calls),
        );
        return None;
    }
    // the accessors agree with what was written
    if r.content_length() as usize != s.length.unwrap_or(0) || r.body().map(|b| b.raw().to_vec()) != s.body {
        ctx.rep.violation("C05:accessors", "content_length()/body() disagree with the builder calls".into(), case_json(version, code_idx, calls));
        return None;
    }
    if sinks {
        for (k, intr) in [(1usize, 0usize), (1, 3), (2, 0), (7, 2), (1000, 5), (usize::MAX, 2)] {
            let mut sink = StingySink { out: Vec::new(), k, intr, calls: 0 };
            let w = guarded(|| r.write_all(&mut sink));
            ctx.rep.count("split_sink_writes");
            match w {
                Ok(Ok(())) if sink.out == out => {}
                other => {
                    ctx.rep.violation(
                        "C05:split-sink",
                        format!("sink accepting {} bytes per call (EINTR every {}): result {:?}, {} bytes instead of {}", k, intr, other.map(|r| r.map_err(|e| e.to_string())), sink.out.len(), out.len()),
                        case_json(version, code_idx, calls),
                    );
                    return None;
                }
            }
        }
    }
    if sinks {
        // sinks that gather: whatever the serializer offers in one vectored call, only k bytes are taken
        let head_len = out.windows(4).position(|w| w == b"\r\n\r\n").map(|p| p + 4).unwrap_or(out.len());
        for k in [1usize, 7, head_len.saturating_sub(1).max(1), head_len, head_len + 1, head_len + 3, out.len().saturating_sub(1).max(1), out.len(), usize::MAX] {
            let mut sink = GatherSink { out: Vec::new(), k, vectored_calls: 0 };
            let w = guarded(|| r.write_all(&mut sink));
            ctx.rep.count("gather_sink_writes");
            if !matches!(w, Ok(Ok(()))) || sink.out != out {
                ctx.rep.violation(
                    "C05:split-sink",
                    format!("sink with write_vectored taking {} bytes per call: result {:?}, {} bytes instead of {} ({} vectored calls)", k, w.map(|r| r.map_err(|e| e.to_string())), sink.out.len(), out.len(), sink.vectored_calls),
                    case_json(version, code_idx, calls),
                );
                return None;
            }
        }
    }
    if sinks {
        // a sink that fails after k bytes (peer gone, buffer too small): the call reports the error, and the
        // bytes of the NEXT serialization (of this or any response, same thread) are not affected by it
        let head_len = out.windows(4).position(|w| w == b"\r\n\r\n").map(|p| p + 4).unwrap_or(out.len());
        for k in [0usize, 1, 9, head_len.saturating_sub(1), head_len + 1] {
            if k >= out.len() {
                continue;
            }
            let mut sink = FailingSink { out: Vec::new(), room: k };
            let w = guarded(|| r.write_all(&mut sink));
            ctx.rep.count("failing_sink_writes");
            match w {
                Ok(Err(_)) if sink.out.len() <= k && sink.out[..] == out[..sink.out.len()] => {}
                other => {
                    ctx.rep.violation(
                        "C05:failing-sink",
                        format!("sink failing after {} bytes: result {:?}, {} bytes accepted (they must be a prefix of the serialization and the call must report the failure)", k, other.map(|r| r.map_err(|e| e.to_string())), sink.out.len()),
                        case_json(version, code_idx, calls),
                    );
                    return None;
                }
            }
            let mut again = Vec::new();
            let w2 = guarded(|| r.write_all(&mut again));
            if !matches!(w2, Ok(Ok(()))) || again != out {
                let i = (0..again.len().min(out.len())).find(|i| again[*i] != out[*i]).unwrap_or(again.len().min(out.len()));
                ctx.rep.violation(
                    "C05:serialization-depends-on-history",
                    format!("after a write that failed at byte {} the same response serializes differently: {} bytes instead of {}, first difference at byte {} ({:?})", k, again.len(), out.len(), i, show(&again[..again.len().min(80)])),
                    case_json(version, code_idx, calls),
                );
                return None;
            }
        }
    }
    Some(out)
}

/// A sink with real scatter/gather support: one `write_vectored` call takes at most `k` bytes, walking
/// through the slices in order (so a call may end inside the second or a later slice).
struct GatherSink {
    out: Vec<u8>,
    k: usize,
    vectored_calls: usize,
}
impl Write for GatherSink {
    fn write(&mut self, buf: &[u8]) -> std::io::Result<usize> {
        let n = self.k.min(buf.len());
        self.out.extend_from_slice(&buf[..n]);
        Ok(n)
    }
    fn write_vectored(&mut self, bufs: &[std::io::IoSlice<'_>]) -> std::io::Result<usize> {
        self.vectored_calls += 1;
        let mut room = self.k;
        let mut n = 0;
        for b in bufs {
            let t = room.min(b.len());
            self.out.extend_from_slice(&b[..t]);
            n += t;
            room -= t;
            if room == 0 {
                break;
            }
        }
        Ok(n)
    }
    fn flush(&mut self) -> std::io::Result<()> {
        Ok(())
    }
}

/// A sink that accepts `room` bytes in total and then fails with EPIPE.
struct FailingSink {
    out: Vec<u8>,
    room: usize,
}
impl Write for FailingSink {
    fn write(&mut self, buf: &[u8]) -> std::io::Result<usize> {
        if self.room == 0 {
            return Err(std::io::Error::from_raw_os_error(libc::EPIPE));
        }
        let n = self.room.min(buf.len());
        self.out.extend_from_slice(&buf[..n]);
        self.room -= n;
        Ok(n)
    }
    fn flush(&mut self) -> std::io::Result<()> {
        Ok(())
    }
}

/// Re-reads a concatenation of responses with the independent reader.
fn check_concat(ctx: &mut Ctx, parts: &[(u8, usize, Vec<usize>)]) -> bool {
    if !ctx.begin() {
        return false;
    }
    ctx.rep.evaluations += 1;
    let mut all = Vec::new();
    let mut shadows = Vec::new();
    for (v, ci, calls) in parts {
        let (r, _exp, s) = build(*v, *ci, calls);
        let _ = r.write_all(&mut all);
        shadows.push(s);
    }
    if shadows.iter().any(|s| s.length != s.body.as_ref().map(|b| b.len()).filter(|n| *n > 0 || s.length.is_some())) {
        // a length the caller set explicitly to something else than the body: the layout is still judged
        // (check_one), but such a stream is not self-delimiting by the caller's own choice
        ctx.rep.count("concatenations_skipped_explicit_length_differs_from_body");
        return false;
    }
    ctx.rep.count("concatenations_reread");
    let case = J::obj(vec![("concat", J::Arr(parts.iter().map(|(v, ci, calls)| case_json(*v, *ci, calls)).collect()))]);
    let (resps, used, err) = read_all_responses(&all);
    if let Some(e) = err {
        ctx.rep.violation("C05:reread-malformed", format!("an independent reader cannot parse the concatenation: {} (after {} responses)", e, resps.len()), case);
        return true;
    }
    if used != all.len() || resps.len() != shadows.len() {
        ctx.rep.violation("C05:reread-framing", format!("reader recovered {} responses using {} of {} bytes; {} were written", resps.len(), used, all.len(), shadows.len()), case);
        return true;
    }
    for (i, (rv, s)) in resps.iter().zip(shadows.iter()).enumerate() {
        let body_ok = rv.body == s.body.clone().unwrap_or_default();
        let mut hdr_ok = rv.header("Server") == s.server.as_deref() && rv.header("Connection") == Some("keep-alive");
        hdr_ok &= rv.content_length == s.length;
        hdr_ok &= rv.header("Deprecation").is_some() == s.deprecation;
        hdr_ok &= rv.header("Allow").map(|a| a.to_string()) == if s.allow.is_empty() { None } else { Some(s.allow.join(", ")) };
        if s.length.is_some() {
            hdr_ok &= rv.header("Content-Type") == s.ctype;
            hdr_ok &= rv.header("Accept-Encoding").is_some() == s.encoding;
        } else {
            hdr_ok &= rv.header("Content-Type").is_none();
        }
        if rv.version != s.version || rv.code != s.code || !body_ok || !hdr_ok {
            ctx.rep.violation(
                "C05:reread-mismatch",
                format!("response #{} of the concatenation was recovered as version {} code {} headers {:?} body {} bytes; written: version {} code {} length {:?}", i, rv.version, rv.code, rv.headers, rv.body.len(), s.version, s.code, s.length),
                case,
            );
            return true;
        }
        ctx.rep.count("responses_recovered_exactly");
    }
    false
}

pub fn run(ctx: &mut Ctx) {
    let quick = ctx.quick();
    let max_len = if quick { 3 } else { 5 };
    let mut idx = 0u64;
    let mut bad = 0;
    for version in 0..2u8 {
        for code_idx in 0..CODES.len() {
            for len in 0..=max_len {
                let total = (N_CALLS as u64).pow(len as u32);
                for n in 0..total {
                    idx += 1;
                    if !ctx.mine(idx) {
                        continue;
                    }
                    let mut x = n;
                    let mut calls = Vec::with_capacity(len);
                    for _ in 0..len {
                        calls.push((x % N_CALLS as u64) as usize);
                        x /= N_CALLS as u64;
                    }
                    ctx.rep.count("builder_sequences_enumerated");
                    if ctx.rep.samples.len() < 4 && n % 211 == 5 {
                        ctx.rep.sample(case_json(version, code_idx, &calls));
                    }
                    let sinks = len <= 2 || n % 13 == 0;
                    if check_one(ctx, version, code_idx, &calls, sinks).is_none() && ctx.only_case.is_none() {
                        bad += 1;
                        if bad > 20 {
                            return;
                        }
                    }
                }
            }
        }
    }
    // ---- explicit lengths: exhaustive sequences (length <= 4) over the calls that touch the length lines
    const LEN_CALLS: [usize; 8] = [0, 1, 19, 20, 21, 9, 6, 4];
    for version in 0..2u8 {
        for code_idx in 0..CODES.len() {
            for len in 1..=4u32 {
                for n in 0..(LEN_CALLS.len() as u64).pow(len) {
                    idx += 1;
                    if !ctx.mine(idx) {
                        continue;
                    }
                    let mut x = n;
                    let mut calls = Vec::with_capacity(len as usize);
                    for _ in 0..len {
                        calls.push(LEN_CALLS[(x % LEN_CALLS.len() as u64) as usize]);
                        x /= LEN_CALLS.len() as u64;
                    }
                    if !calls.iter().any(|c| *c >= 19) {
                        continue;
                    }
                    ctx.rep.count("builder_sequences_with_explicit_length");
                    if check_one(ctx, version, code_idx, &calls, n % 5 == 0).is_none() && ctx.only_case.is_none() {
                        bad += 1;
                        if bad > 20 {
                            return;
                        }
                    }
                }
            }
        }
    }
    // ---- size sweep: every body length 0..=4400 and the neighbourhoods of 8 KiB, 16 KiB, 64 KiB, under four
    // header configurations, so that every TOTAL serialized size around a page / power of two occurs as well
    let mut sizes: Vec<usize> = (0..=4400).collect();
    for c in [8192usize, 16384, 32768, 65536, 131072] {
        sizes.extend(c - 140..=c + 3);
    }
    let configs: [&[usize]; 4] = [&[], &[11, 8, 9], &[6, 14, 15], &[7, 10]];
    for (si, n) in sizes.iter().enumerate() {
        idx += 1;
        if !ctx.mine(idx) {
            continue;
        }
        if quick && *n > 4400 && si % 3 != 0 {
            continue;
        }
        for (ci, cfg) in configs.iter().enumerate() {
            let mut calls: Vec<usize> = cfg.to_vec();
            calls.push(1000 + n);
            let version = ((si + ci) % 2) as u8;
            let code_idx = [1usize, 3, 0, 5][(si + ci) % 4];
            ctx.rep.count("size_sweep_responses");
            if check_one(ctx, version, code_idx, &calls, false).is_none() && ctx.only_case.is_none() {
                bad += 1;
                if bad > 20 {
                    return;
                }
            }
            // followed by a second response on the same stream: the reader must find the boundary
            if ci == 0 {
                check_concat(ctx, &[(version, code_idx, calls.clone()), (1, 1, vec![1])]);
            }
        }
    }
    // ---- random longer sequences (length 4..5, incl. the 64 KiB body) and concatenations of 2..8
    let n_rand = ctx.budget(30_000, 6_000_000) / ctx.nshards;
    let mut rng: Rng = ctx.rng.fork(0xC05);
    let rand_resp = |rng: &mut Rng| -> (u8, usize, Vec<usize>) {
        let len = rng.range(0, 5);
        let calls: Vec<usize> = (0..len).map(|_| if rng.chance(1, 60) { 18 } else if rng.chance(1, 12) { 19 + rng.below(3) } else { rng.below(N_CALLS) }).collect();
        (rng.below(2) as u8, rng.below(CODES.len()), calls)
    };
    for i in 0..n_rand {
        if i % 4 == 0 {
            let k = rng.range(2, 8);
            let parts: Vec<(u8, usize, Vec<usize>)> = (0..k).map(|_| rand_resp(&mut rng)).collect();
            if ctx.rep.samples.len() < 6 && i % 400 == 0 {
                ctx.rep.sample(J::obj(vec![("concat", J::Arr(parts.iter().map(|(v, ci, calls)| case_json(*v, *ci, calls)).collect()))]));
            }
            if check_concat(ctx, &parts) {
                bad += 1;
            }
        } else {
            let (v, ci, calls) = rand_resp(&mut rng);
            ctx.rep.count("builder_sequences_random");
            if check_one(ctx, v, ci, &calls, i % 8 == 1).is_none() && ctx.only_case.is_none() {
                bad += 1;
            }
        }
        if bad > 20 {
            return;
        }
    }
}

pub fn replay(ctx: &mut Ctx, case: &J) {
    ctx.only_case = None;
    let parse = |c: &J| -> (u8, usize, Vec<usize>) {
        (c.gu("version") as u8, c.gu("code_idx") as usize, c.garr("calls_idx").iter().filter_map(|x| x.as_u64()).map(|x| x as usize).collect())
    };
    if case.get("concat").is_some() {
        let parts: Vec<(u8, usize, Vec<usize>)> = case.garr("concat").iter().map(parse).collect();
        check_concat(ctx, &parts);
    } else {
        let (v, ci, calls) = parse(case);
        println!("version {} status {} calls {:?}", v, CODES[ci].1, calls.iter().map(|c| call_name(*c)).collect::<Vec<_>>());
        if let Some(out) = check_one(ctx, v, ci, &calls, true) {
            println!("serialization: {}", show(&out));
        }
    }
}
