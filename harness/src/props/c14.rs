//! C14 — one-shot request parsing agrees with the incremental connection parser.
//!
//! Monitor: differential execution of `Request::try_from` and a real connection on the C02
//! corpus (with and without trailing bytes), in both directions, plus the max-length rule.
use micro_http::Request;

use crate::conn::{guarded, run_stream, view, Gap, Runner, RR};
use crate::model::ReqView;
use crate::props::c02;
use crate::stream::ReadEv;
use crate::util::{show, Fp, J};
use crate::Ctx;

const SENTINEL: &[u8] = b"GET /__sentinel__ HTTP/1.1\r\nX-S: 1\r\n\r\n";
/// The differential uses a connection without an effective payload limit; the line limit is
/// handled by skipping slices with a head line longer than the connection accepts.
const NO_LIMIT: usize = u32::MAX as usize;

fn oneshot(b: &[u8], max: Option<usize>) -> Result<Result<ReqView, String>, String> {
    guarded(|| match Request::try_from(b, max) {
        Ok(r) => Ok(view(&r)),
        Err(e) => Err(format!("{:?}", e)),
    })
}

/// Longest line (including its CRLF) of the head of `b`, i.e. up to the first blank line.
fn longest_head_line(b: &[u8]) -> usize {
    let mut longest = 0;
    let mut start = 0;
    let mut i = 0;
    while i + 1 < b.len() {
        if b[i] == b'\r' && b[i + 1] == b'\n' {
            let l = i + 2 - start;
            longest = longest.max(l);
            if i == start {
                return longest; // blank line: end of head
            }
            start = i + 2;
            i += 2;
        } else {
            i += 1;
        }
    }
    longest.max(b.len() - start)
}

fn case_json(b: &[u8], what: &str, dir: &str) -> J {
    J::obj(vec![
        ("engine", J::s("scripted-stream+one-shot")),
        ("what", J::s(what)),
        ("direction", J::s(dir)),
        ("slice_hex", J::hexs(b)),
        ("slice_show", J::s(&show(b))),
    ])
}

pub fn judge(ctx: &mut Ctx, b: &[u8], what: &str) {
    if !ctx.begin() {
        return;
    }
    ctx.rep.evaluations += 1;
    let one = match oneshot(b, None) {
        Ok(r) => r,
        Err(p) => {
            ctx.rep.violation("C14:panic-one-shot", format!("[{}] Request::try_from panicked: {}", what, p), case_json(b, what, "->"));
            return;
        }
    };
    // ---------------- (->) one-shot accepts => connection's first request is identical
    if let Ok(r1) = &one {
        ctx.rep.count("oneshot_accepted");
        if longest_head_line(b) > 1024 {
            ctx.rep.count("skipped_line_over_connection_limit");
        } else {
            let o = run_stream(Some(NO_LIMIT), b, &[], Gap::None, false);
            let first = o.delivered.first();
            if o.fault.is_some() || first != Some(r1) {
                ctx.rep.violation(
                    "C14:oneshot-accepts-connection-differs",
                    format!("[{}] one-shot parser returned {:?}; connection: first={:?} error={:?} fault={:?}", what, r1, first, o.error, o.fault),
                    case_json(b, what, "->"),
                );
                return;
            }
            ctx.rep.count("forward_agreements");
            ctx.rep.distinct(Fp::new().bytes(b).u(1).0);
            // the same bytes under a derived segmentation (2-5 cuts): the agreement must not depend on the read split
            if b.len() >= 4 {
                let mut rng = crate::util::Rng::new(Fp::new().bytes(b).0);
                let cuts = crate::gen::random_cuts(&mut rng, b.len(), 5);
                if !cuts.is_empty() {
                    let gap = if b.len() % 2 == 0 { Gap::WouldBlock } else { Gap::Interrupted };
                    let o2 = run_stream(Some(NO_LIMIT), b, &cuts, gap, false);
                    ctx.rep.count("forward_agreements_segmented");
                    if o2.fault.is_some() || o2.delivered.first() != Some(r1) {
                        ctx.rep.violation(
                            "C14:oneshot-accepts-connection-differs",
                            format!("[{}] one-shot parser returned {:?}; connection fed the same bytes cut at {:?} with an empty read in every gap: first={:?} error={:?} fault={:?}", what, r1, cuts, o2.delivered.first(), o2.error, o2.fault),
                            J::obj(vec![("engine", J::s("scripted-stream+one-shot")), ("what", J::s(what)), ("direction", J::s("->segmented")), ("slice_hex", J::hexs(b)), ("slice_show", J::s(&show(b))), ("cuts", J::Arr(cuts.iter().map(|c| J::u(*c as u64)).collect()))]),
                        );
                        return;
                    }
                }
            }
            // "within the payload limits" includes the limit itself: a connection whose limit is exactly the
            // declared length, one more, or the default (when the length fits it) must deliver the same request
            let n = r1.content_length as usize;
            if n > 0 {
                for lim in [Some(n), Some(n + 1), None] {
                    if lim.is_none() && n > 51200 {
                        continue;
                    }
                    let o3 = run_stream(lim, b, &[], Gap::None, false);
                    ctx.rep.count(if lim.is_none() { "forward_agreements_default_limit" } else { "forward_agreements_at_limit" });
                    if o3.fault.is_some() || o3.delivered.first() != Some(r1) {
                        ctx.rep.violation(
                            "C14:oneshot-accepts-connection-differs",
                            format!("[{}] one-shot parser returned {:?}; connection with payload limit {:?} (declared length {}): first={:?} error={:?} fault={:?}", what, r1, lim, n, o3.delivered.first(), o3.error, o3.fault),
                            case_json(b, what, "->at-limit"),
                        );
                        return;
                    }
                    ctx.rep.distinct(Fp::new().bytes(b).u(3).u(lim.unwrap_or(0) as u64).0);
                }
            }
        }
    }
    // ---------------- (<-) connection delivers exactly one request with nothing left over
    let mut r = Runner::new(Some(NO_LIMIT));
    r.script.push_read(ReadEv::Data(b.to_vec(), Vec::new()));
    let mut delivered: Vec<ReqView> = Vec::new();
    let mut clean = true;
    while r.script.pending_reads() > 0 {
        let so = r.read();
        delivered.extend(so.delivered);
        if so.res != RR::Ok {
            clean = false;
            break;
        }
    }
    if clean && delivered.len() == 1 {
        // nothing left over <=> an appended sentinel request comes out intact and alone
        let so = r.feed(ReadEv::Data(SENTINEL.to_vec(), Vec::new()));
        let sentinel_ok = so.res == RR::Ok
            && so.delivered.len() == 1
            && so.delivered[0].uri == "/__sentinel__"
            && so.delivered[0].custom == vec![("X-S".to_string(), "1".to_string())]
            && so.delivered[0].body.is_none();
        if sentinel_ok {
            ctx.rep.count("connection_exactly_one");
            let d = &delivered[0];
            let get_with_body = d.method == 0 && d.content_length != 0;
            match (&one, get_with_body) {
                (Ok(_), true) => {
                    ctx.rep.violation(
                        "C14:get-with-body-accepted-by-one-shot",
                        format!("[{}] GET declaring a body must be rejected by the one-shot parser, got {:?}", what, one),
                        case_json(b, what, "<-"),
                    );
                    return;
                }
                (Err(_), true) => ctx.rep.count("get_with_body_rejected_by_oneshot"),
                (Ok(r1), false) => {
                    if r1 != d {
                        ctx.rep.violation(
                            "C14:results-differ",
                            format!("[{}] connection delivered {:?}, one-shot parser returned {:?}", what, d, r1),
                            case_json(b, what, "<-"),
                        );
                        return;
                    }
                    ctx.rep.count("backward_agreements");
                    ctx.rep.distinct(Fp::new().bytes(b).u(2).0);
                }
                (Err(e), false) => {
                    ctx.rep.violation(
                        "C14:connection-accepts-oneshot-rejects",
                        format!("[{}] connection delivered exactly {:?} with nothing left over, one-shot parser says Err({})", what, d, e),
                        case_json(b, what, "<-"),
                    );
                    return;
                }
            }
        }
    }
    // ---------------- max length rule
    let len = b.len();
    for m in [0usize, 1, len.saturating_sub(1), len, len + 1, len + 1000] {
        let got = match oneshot(b, Some(m)) {
            Ok(r) => r,
            Err(p) => {
                ctx.rep.violation("C14:panic-one-shot", format!("[{}] try_from(_, Some({})) panicked: {}", what, m, p), case_json(b, what, "max"));
                return;
            }
        };
        let bad = if len >= m { got.is_ok() } else { got.is_ok() != one.is_ok() || (got.is_ok() && got.as_ref().ok() != one.as_ref().ok()) };
        ctx.rep.count(if len >= m { "max_len_reached" } else { "max_len_not_reached" });
        if bad {
            ctx.rep.violation(
                "C14:max-len-rule",
                format!("[{}] len={} max={}: with max {:?}, without {:?}", what, len, m, got, one),
                case_json(b, what, "max"),
            );
            return;
        }
    }
}

pub fn run(ctx: &mut Ctx) {
    // requests with many header fields (distinct names, repeated names, recognised and not): no count is part
    // of either parser's contract, so they agree for 1 as for 400
    if ctx.shard == 2 % ctx.nshards {
        for n in [1usize, 40, 99, 100, 101, 128, 150, 255, 256, 257, 400] {
            for kind in 0..3usize {
                let mut s = format!("{} /many HTTP/1.{}\r\n", ["GET", "PUT", "PATCH"][kind], n % 2).into_bytes();
                for i in 0..n {
                    let line = match kind {
                        0 => format!("X-Custom-{}: value-{}\r\n", i, i),
                        1 => format!("X-Same: {}\r\nx-{}: v\r\n", i, i),
                        _ => format!("Accept: text/plain\r\nX-{}: {}\r\n", i % 120, i),
                    };
                    s.extend_from_slice(line.as_bytes());
                }
                if kind > 0 {
                    s.extend_from_slice(b"Content-Length: 3\r\n\r\nabc");
                } else {
                    s.extend_from_slice(b"\r\n");
                }
                ctx.rep.count("requests_with_many_header_fields");
                judge(ctx, &s, "many header fields");
            }
        }
    }
    // bodies around the default payload limit (51200): the one-shot parser has no payload limit, the connection's
    // is inclusive, so up to and including 51200 both deliver the same request
    if ctx.shard == 3 % ctx.nshards {
        for n in [1usize, 1023, 1024, 1025, 4096, 51199, 51200] {
            for (k, m) in ["PUT", "PATCH"].iter().enumerate() {
                let mut s = format!("{} /limit/{} HTTP/1.{}\r\nContent-Length: {}\r\n\r\n", m, n, k, n).into_bytes();
                s.extend((0..n).map(|i| b'a' + ((i + k) % 26) as u8));
                ctx.rep.count("requests_with_body_around_default_limit");
                judge(ctx, &s, "body around the default payload limit");
            }
        }
    }
    let n_base = ctx.budget(12000, 300000);
    for i in 0..n_base {
        if !ctx.mine(i) {
            continue;
        }
        c02::corpus(ctx, i, &mut |ctx, s, _limit, what, rng| {
            if ctx.rep.samples.len() < 5 && (s.len() as u64 + i) % 41 == 0 {
                ctx.rep.sample(J::obj(vec![("what", J::s(what)), ("slice", J::s(&show(s)))]));
            }
            // the stream as generated (pipelined requests = first request + trailing bytes)
            judge(ctx, s, what);
            // the first request alone (no trailing bytes): cut at the end M1 assigns to it
            let m = crate::model::m1(s, NO_LIMIT);
            if let Some(crate::model::M1Event::Deliver { at, .. }) = m.events.iter().find(|e| matches!(e, crate::model::M1Event::Deliver { .. })) {
                if *at < s.len() {
                    judge(ctx, &s[..*at], what);
                    // and one byte short / one byte extra
                    if rng.chance(1, 4) {
                        judge(ctx, &s[..*at - 1], what);
                        judge(ctx, &s[..*at + 1], what);
                    }
                }
            }
        });
    }
}

pub fn replay(ctx: &mut Ctx, case: &J) {
    let b = case.ghex("slice_hex");
    println!("slice ({} bytes): {}", b.len(), show(&b));
    println!("one-shot: {:?}", oneshot(&b, None));
    let o = run_stream(Some(NO_LIMIT), &b, &[], Gap::None, false);
    println!("connection: delivered={:?} error={:?}", o.delivered, o.error);
    ctx.only_case = None;
    judge(ctx, &b, &case.gs("what"));
}
