//! C08 — well-behaved clients: each request yielded once and answered; no stall, no spin.
//!
//! Monitor: histories of clients that stay open and send only well-formed requests. Inline:
//! requests()/respond() never fail, every yielded tag is a complete request of its client and is
//! yielded once, everything a client reads is attributable (M6). At the end a settle loop (answer
//! everything, poll only while the epoll descriptor is ready, drain every client) must reach, within a
//! bound counted in polling calls, the state where every complete request was yielded and every
//! supplied response was received in full and in order (no lost wake-up); once nothing is
//! outstanding the epoll descriptor must not be readable (no spin). `flush_outgoing_writes` must
//! deliver queued responses that fit the socket buffer without polling.
use crate::hist::{self, Act, Applied, HistoryProp, Piece, Size};
use crate::sim::{judge_client, JudgeOpts, PollOut, Sim};
use crate::util::{Rng, J};
use crate::Ctx;

pub struct P08 {
    pub max_clients: usize,
    pub max_reqs_per_gen: usize,
    pub pieces: Vec<Piece>,
    pub sizes: Vec<Size>,
    pub allow_flush: bool,
    pub with_kill_switch: bool,
    /// run the 100-continue server-level checks strictly (C13 family)
    pub strict_100: bool,
    pub use_path_server_every: u64,
    made: u64,
}

impl P08 {
    pub fn new(max_clients: usize, max_reqs_per_gen: usize) -> Self {
        P08 {
            max_clients,
            max_reqs_per_gen,
            pieces: vec![Piece::Get, Piece::Put, Piece::Head, Piece::Two],
            sizes: vec![Size::Small],
            allow_flush: false,
            with_kill_switch: false,
            strict_100: true,
            use_path_server_every: 0,
            made: 0,
        }
    }

    /// bytes the application has supplied to this generation that the client has not read yet
    fn unread_output(sim: &Sim, gi: usize) -> usize {
        let g = &sim.gens[gi];
        let supplied: usize = g.supplied.iter().map(|(_, n)| n + 160).sum();
        supplied.saturating_sub(g.recv.len())
    }

    fn inline_checks(&self, sim: &Sim) -> Option<(String, String)> {
        if let Some((step, e)) = sim.api_errors.first() {
            return Some(("api-error".into(), format!("at step {}: {}", step, e)));
        }
        if let Some(u) = sim.untagged_yields.first() {
            return Some(("phantom-yield".into(), format!("a request with URI {:?} was yielded; no client sent it", u)));
        }
        for g in &sim.gens {
            let mut seen: Vec<&String> = Vec::new();
            for t in &g.yielded {
                if seen.contains(&t) {
                    return Some(("duplicate-yield".into(), format!("request {} was yielded twice", t)));
                }
                seen.push(t);
                if !g.completed.iter().any(|c| c == t) {
                    return Some(("phantom-yield".into(), format!("request {} was yielded but c{}g{} has not sent it completely", t, g.client, g.gen)));
                }
            }
            // order: yields of one connection follow the order in which it sent the requests
            let order: Vec<&String> = g.completed.iter().filter(|c| g.yielded.contains(c)).collect();
            let got: Vec<&String> = g.yielded.iter().collect();
            if order != got {
                return Some(("yield-order".into(), format!("c{}g{}: requests yielded in order {:?}, sent in order {:?}", g.client, g.gen, got, order)));
            }
        }
        None
    }

    /// Everything that must have happened once the server is idle and every client has drained.
    fn completeness(&self, sim: &Sim) -> Option<(String, String)> {
        for g in &sim.gens {
            for t in g.completed.iter().filter(|t| !t.starts_with('?')) {
                if !g.yielded.contains(t) {
                    return Some(("lost-request".into(), format!("c{}g{} sent {} completely; the server is idle and every client has drained, but it was never yielded", g.client, g.gen, t)));
                }
            }
            match judge_client(g, &JudgeOpts { allow_500: false }) {
                Err(e) => return Some(e),
                Ok(v) => {
                    if v.app_responses != g.supplied.len() || v.partial_tail != 0 {
                        return Some((
                            "lost-response".into(),
                            format!(
                                "c{}g{}: {} responses supplied, {} received in full ({} bytes of a partial one) although the client drained and the server is idle",
                                g.client,
                                g.gen,
                                g.supplied.len(),
                                v.app_responses,
                                v.partial_tail
                            ),
                        ));
                    }
                    if self.strict_100 {
                        let m = crate::model::m1(&g.sent, g.limit_at_accept);
                        let want = m.events.iter().filter(|e| matches!(e, crate::model::M1Event::Continue100 { .. })).count();
                        if v.continues != want {
                            return Some(("missing-100".into(), format!("c{}g{}: its input asks for {} interim responses, it received {} (server idle, client drained)", g.client, g.gen, want, v.continues)));
                        }
                    }
                }
            }
        }
        None
    }

    fn settle_bound(sim: &Sim) -> usize {
        let mut units = 0usize;
        for g in &sim.gens {
            units += g.sent.len() / 512 + g.completed.len() + 2;
            units += g.supplied.iter().map(|(_, n)| n / 1024 + 2).sum::<usize>();
        }
        units += sim.outstanding.len() * 4;
        80 + 8 * units
    }

    fn coverage(ctx: &mut Ctx, sim: &Sim) {
        // evidence only: state x interest x pending output x unread input x in-flight combinations
        let interest = crate::sim::epoll_interest(sim.epfd);
        for c in sim.server.verif_probe() {
            let ev = interest.iter().find(|(fd, _)| *fd == c.fd).map(|(_, e)| *e).unwrap_or(0);
            let out_interest = ev & (libc::EPOLLOUT as u32) != 0;
            let pending = c.connection.response_queue > 0 || c.connection.response_buffer.is_some();
            let mut unread: libc::c_int = 0;
            // SAFETY: FIONREAD writes an int.
            unsafe { libc::ioctl(c.fd, libc::FIONREAD, &mut unread) };
            let key = format!(
                "combo_state{}_{}_{}_{}_{}",
                c.state,
                if out_interest { "OUT" } else { "IN" },
                if pending { "pendingout" } else { "noout" },
                if unread > 0 { "unreadin" } else { "noin" },
                if c.in_flight > 0 { "inflight" } else { "noinflight" }
            );
            ctx.rep.count(&key);
        }
    }
}

impl HistoryProp for P08 {
    fn new_sim(&mut self, ctx: &mut Ctx) -> Option<Sim> {
        self.made += 1;
        let dir = if self.use_path_server_every > 0 && self.made % self.use_path_server_every == 0 && !ctx.run_dir.is_empty() { Some(ctx.run_dir.clone()) } else { None };
        Sim::new(self.with_kill_switch, dir.as_deref()).ok()
    }

    fn enabled(&self, sim: &Sim) -> Vec<Act> {
        let mut v = Vec::new();
        for c in 0..self.max_clients {
            match sim.gen_of(c) {
                None => {
                    if !sim.gens.iter().any(|g| g.client == c) {
                        v.push(Act::Connect(c));
                    }
                    break; // canonical order
                }
                Some(gi) => {
                    let g = &sim.gens[gi];
                    if g.pending_rest.is_some() {
                        v.push(Act::Send(c, Piece::Rest));
                    } else if g.seq < self.max_reqs_per_gen {
                        for p in &self.pieces {
                            if (*p == Piece::Two || *p == Piece::GetExpect) && g.seq + 2 > self.max_reqs_per_gen {
                                continue;
                            }
                            v.push(Act::Send(c, *p));
                        }
                    }
                    if sim.has_unread(gi) {
                        v.push(Act::Drain(c));
                    }
                }
            }
        }
        if sim.ready() {
            v.push(Act::Poll);
        }
        for i in 0..sim.outstanding.len() {
            for s in &self.sizes {
                v.push(Act::Respond(i, *s));
            }
        }
        if sim.outstanding.len() >= 2 {
            v.push(Act::RespondAllRev(self.sizes[0]));
            // the same answers handed over in one `enqueue_responses` batch, interleaved
            v.push(Act::RespondBatch(2 + sim.step as u64 * 7919 + sim.outstanding.len() as u64, self.sizes[0]));
        }
        if self.allow_flush && (0..sim.gens.len()).all(|gi| Self::unread_output(sim, gi) < 100_000) && sim.gens.iter().any(|g| !g.supplied.is_empty()) {
            v.push(Act::Flush);
        }
        v
    }

    fn after(&mut self, ctx: &mut Ctx, sim: &mut Sim, act: &Act, applied: &Applied) -> Option<(String, String)> {
        if let Some(v) = self.inline_checks(sim) {
            return Some(v);
        }
        // no lost wake-up at any point of the history, whether or not the clients have read yet
        ctx.rep.count("quiet_output_checks");
        if let Some(d) = sim.quiet_with_deliverable_output() {
            return Some(("stall:quiet-with-deliverable-output".into(), d));
        }
        match act {
            Act::Poll => {
                if let Applied::Poll(PollOut::Yielded(_)) = applied {
                    Self::coverage(ctx, sim);
                }
                None
            }
            Act::Drain(c) | Act::DrainSome(c) => {
                let gi = sim.gens.iter().rposition(|g| g.client == *c)?;
                judge_client(&sim.gens[gi], &JudgeOpts { allow_500: false }).err()
            }
            Act::Flush => {
                // queued responses that fit the socket buffer are delivered without polling
                ctx.rep.count("flush_calls");
                sim.drain_all();
                for g in &sim.gens {
                    match judge_client(g, &JudgeOpts { allow_500: false }) {
                        Err(e) => return Some(e),
                        Ok(v) => {
                            if v.app_responses != g.supplied.len() || v.partial_tail != 0 {
                                return Some((
                                    "flush-did-not-deliver".into(),
                                    format!("after flush_outgoing_writes c{}g{} has received {} of {} supplied responses (all fit the socket buffer)", g.client, g.gen, v.app_responses, g.supplied.len()),
                                ));
                            }
                        }
                    }
                }
                ctx.rep.add("responses_delivered_by_flush", sim.gens.iter().map(|g| g.supplied.len() as u64).sum());
                None
            }
            _ => None,
        }
    }

    fn finish(&mut self, ctx: &mut Ctx, sim: &mut Sim) -> Option<(String, String)> {
        // ---- phase 0: without any answer from the application, every interim response the clients' input
        // asks for must arrive (a client waiting for its 100 must not depend on other requests being answered)
        if self.strict_100 {
            let bound = Self::settle_bound(sim);
            let (_calls, idle) = sim.settle(bound, None);
            if let Some(v) = self.inline_checks(sim) {
                return Some(v);
            }
            if idle {
                for g in &sim.gens {
                    let m = crate::model::m1(&g.sent, g.limit_at_accept);
                    if m.dont_care || m.events.iter().any(|e| matches!(e, crate::model::M1Event::Error { .. })) {
                        continue;
                    }
                    let want = m.events.iter().filter(|e| matches!(e, crate::model::M1Event::Continue100 { .. })).count();
                    if want == 0 {
                        continue;
                    }
                    match judge_client(g, &JudgeOpts { allow_500: false }) {
                        Err(e) => return Some(e),
                        Ok(v) => {
                            ctx.rep.count("interim_responses_checked_before_any_answer");
                            if v.continues != want {
                                return Some((
                                    "stall:missing-100".into(),
                                    format!("c{}g{}: its input asks for {} interim responses; with the server idle, the client drained and the application not having answered anything yet it has received {}", g.client, g.gen, want, v.continues),
                                ));
                            }
                        }
                    }
                }
            }
        }
        // ---- phase 1: settle with partially sent requests left as they are
        let bound = Self::settle_bound(sim);
        let (calls, idle) = sim.settle(bound, Some(0));
        ctx.rep.max("max_polls_in_one_settle", calls as u64);
        if let Some(v) = self.inline_checks(sim) {
            return Some(v);
        }
        if !idle {
            // never idle within the bound: either still making progress (not expected within this generous bound) or spinning
            let outstanding = self.completeness(sim).is_some();
            return Some((
                if outstanding { "no-progress-within-bound".into() } else { "spin".into() },
                format!("{} polling calls after the history and the epoll descriptor is still readable; outstanding work: {}", calls, outstanding),
            ));
        }
        if let Some((k, d)) = self.completeness(sim) {
            return Some((format!("stall:{}", k), d));
        }
        ctx.rep.count("quiescent_states_checked_for_spin");
        if sim.gens.iter().any(|g| g.pending_rest.is_some()) {
            ctx.rep.count("quiescent_states_with_partial_request");
        }
        // ---- phase 2: clients finish what they started (incl. bodies awaited after a 100)
        let mut any = false;
        for gi in 0..sim.gens.len() {
            if sim.gens[gi].pending_rest.is_some() {
                let expect = sim.gens[gi].sent.windows(7).any(|w| w.eq_ignore_ascii_case(b"expect:"));
                if expect {
                    ctx.rep.count("bodies_sent_after_100_continue");
                }
                sim.finish_request(gi);
                any = true;
            }
        }
        if any {
            let bound = Self::settle_bound(sim);
            let (calls, idle) = sim.settle(bound, Some(0));
            ctx.rep.max("max_polls_in_one_settle", calls as u64);
            if let Some(v) = self.inline_checks(sim) {
                return Some(v);
            }
            if !idle {
                return Some(("spin".into(), format!("{} polling calls after the clients completed their requests and the epoll descriptor is still readable", calls)));
            }
            if let Some((k, d)) = self.completeness(sim) {
                return Some((format!("stall:{}", k), d));
            }
            ctx.rep.count("quiescent_states_checked_for_spin");
        }
        ctx.rep.add("requests_yielded", sim.gens.iter().map(|g| g.yielded.len() as u64).sum());
        ctx.rep.add("responses_received_in_full", sim.gens.iter().map(|g| g.supplied.len() as u64).sum());
        ctx.rep.add("large_responses_received", sim.gens.iter().map(|g| g.supplied.iter().filter(|(_, n)| *n >= 1 << 20).count() as u64).sum());
        None
    }

    fn nontrivial(&self, sim: &Sim) -> bool {
        sim.gens.iter().any(|g| !g.yielded.is_empty())
    }
}

pub fn choose(rng: &mut Rng, _sim: &Sim, en: &[Act]) -> Option<Act> {
    if en.is_empty() {
        return None;
    }
    let mut w: Vec<usize> = Vec::with_capacity(en.len());
    for a in en {
        w.push(match a {
            Act::Poll => 12,
            Act::Connect(_) => 3,
            Act::Send(_, Piece::Rest) => 6,
            Act::Send(_, _) => 2,
            Act::Drain(_) | Act::DrainSome(_) => 4,
            Act::Respond(_, Size::Large) => 1,
            Act::Respond(_, _) => 4,
            Act::RespondAllRev(_) | Act::RespondAll(_) | Act::RespondBatch(_, _) => 2,
            Act::Flush => 2,
            _ => 1,
        });
    }
    let total: usize = w.iter().sum();
    let mut x = rng.below(total);
    for (i, wi) in w.iter().enumerate() {
        if x < *wi {
            return Some(en[i].clone());
        }
        x -= wi;
    }
    None
}

pub fn run(ctx: &mut Ctx) {
    let quick = ctx.quick();
    // exhaustive, small responses, no flush
    let mut p = P08::new(2, 2);
    p.pieces = vec![Piece::Get, Piece::Head, Piece::Two, Piece::Expect];
    hist::dfs(ctx, &mut p, if quick { 9 } else { 12 }, 3, "C08", 12);
    // exhaustive with flush in the alphabet (one client more shallow)
    let mut p = P08::new(2, 2);
    p.pieces = vec![Piece::Get, Piece::Put];
    p.allow_flush = true;
    hist::dfs(ctx, &mut p, if quick { 8 } else { 11 }, 3, "C08", 12);
    // random: up to 4 clients, all pieces, responses up to 1 MiB, flush
    let mut p = P08::new(4, 6);
    p.pieces = vec![Piece::Get, Piece::Put, Piece::Head, Piece::Two, Piece::Expect, Piece::Big, Piece::GetExpect, Piece::Aligned];
    p.sizes = vec![Size::Small, Size::Medium, Size::Large];
    p.allow_flush = true;
    p.use_path_server_every = 50;
    let n = ctx.budget(8_000, 500_000) / ctx.nshards;
    hist::random_histories(ctx, &mut p, n, 20, 120, "C08", &mut choose);
    // the same with a registered, never signalled kill switch
    let mut p = P08::new(3, 4);
    p.pieces = vec![Piece::Get, Piece::Put, Piece::Head, Piece::Two, Piece::Expect];
    p.sizes = vec![Size::Small, Size::Medium];
    p.with_kill_switch = true;
    hist::random_histories(ctx, &mut p, n / 4 + 1, 20, 80, "C08", &mut choose);
    if ctx.rep.samples.is_empty() {
        ctx.rep.sample(J::s("no sample"));
    }
}

pub fn replay(ctx: &mut Ctx, case: &J) {
    let mut p = P08::new(4, 6);
    p.allow_flush = true;
    hist::replay_history(ctx, &mut p, case, "C08");
}
