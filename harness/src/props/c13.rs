//! C13 — `100 Continue` is queued exactly once for each request with `Expect: 100-continue` and
//! 1 <= Content-Length <= limit, when its header block completes and before any body byte is
//! required; never otherwise.
//!
//! Monitor (connection level): after every try_read the output is drained through try_write and
//! parsed by the independent response reader; the number, order and versions of the interim
//! responses written so far must equal the qualifying requests (per M1) whose header block ends
//! within the bytes consumed so far. The server-level part lives in the simulator (sim C13 family).
use micro_http::ConnectionError;

use crate::conn::{guarded, Runner, RR};
use crate::gen::{self, ReqSpec};
use crate::model::{m1, read_all_responses, M1Event};
use crate::stream::ReadEv;
use crate::util::{show, Fp, Rng, J};
use crate::Ctx;

const EXPECT_LINES: [(&str, bool); 10] = [
    ("Expect: 100-continue", true),
    ("expect:100-continue", true),
    ("EXPECT:   100-continue  ", true),
    ("eXpEcT:\t100-continue", true),
    ("Expect: 100-Continue", false),
    ("Expect: 103-checkpoint", false),
    ("Expect:", false),
    ("Expect: 100-continue, x", false),
    ("X-Expect: 100-continue", false),
    ("Expect : 100-continue", true),
];

fn gen_stream(rng: &mut Rng, limit: usize) -> (Vec<u8>, Vec<usize>) {
    let k = rng.range(1, 3);
    let mut s = Vec::new();
    let mut hdr_ends = Vec::new();
    for i in 0..k {
        let last = i + 1 == k;
        let mut headers: Vec<Vec<u8>> = Vec::new();
        let ne = *rng.pick(&[0usize, 1, 1, 1, 2]);
        for _ in 0..ne {
            headers.push(rng.pick(&EXPECT_LINES).0.as_bytes().to_vec());
        }
        for _ in 0..rng.below(3) {
            headers.push(gen::BENIGN_HEADERS[rng.below(gen::BENIGN_HEADERS.len())].as_bytes().to_vec());
        }
        // Content-Length in {absent, 0, 1, .., L, L+1}
        let choice = rng.below(8);
        let n: Option<usize> = match choice {
            0 => None,
            1 => Some(0),
            2 => Some(1),
            3 => Some(limit.min(3000)),
            4 if last => Some(limit + 1),
            5 => Some(limit.min(3000).saturating_sub(1).max(1)),
            _ => Some(rng.range(1, limit.min(1500).max(1))),
        };
        if let Some(n) = n {
            let pos = rng.below(headers.len() + 1);
            headers.insert(pos, gen::content_length_line(n, rng));
        }
        let body_len = match n {
            Some(n) if n <= limit => n,
            _ => 0,
        };
        let r = ReqSpec {
            method: gen::METHODS[rng.below(3)].to_vec(),
            uri: format!("/e{}", i).into_bytes(),
            version: gen::VERSIONS[rng.below(2)].to_vec(),
            headers,
            body: gen::body_bytes(i, body_len, rng),
            ..Default::default()
        };
        let l = r.render_into(&mut s);
        hdr_ends.push(l.hdr_end);
    }
    (s, hdr_ends)
}

fn case_json(stream: &[u8], limit: usize, cuts: &[usize]) -> J {
    J::obj(vec![
        ("engine", J::s("scripted-stream")),
        ("stream_hex", J::hexs(stream)),
        ("stream_show", J::s(&show(stream))),
        ("limit", J::u(limit as u64)),
        ("cuts", J::Arr(cuts.iter().map(|c| J::u(*c as u64)).collect())),
    ])
}

/// Executes one (stream, segmentation) and checks the interim responses after every read.
pub fn exec(ctx: &mut Ctx, stream: &[u8], limit: usize, cuts: &[usize]) -> bool {
    if !ctx.begin() {
        return false;
    }
    ctx.rep.evaluations += 1;
    let m = m1(stream, limit);
    if m.dont_care {
        return false;
    }
    let expected: Vec<(u8, usize)> = m
        .events
        .iter()
        .filter_map(|e| if let M1Event::Continue100 { version, at } = e { Some((*version, *at)) } else { None })
        .collect();
    if !expected.is_empty() {
        let mut f = Fp::new().bytes(stream).u(limit as u64);
        for c in cuts {
            f = f.u(*c as u64);
        }
        ctx.rep.distinct(f.0);
    }
    let mut r = Runner::new(Some(limit));
    let mut consumed = 0usize;
    let mut written: Vec<u8> = Vec::new();
    let mut start = 0usize;
    let fail = |ctx: &mut Ctx, kind: &str, detail: String| {
        ctx.rep.violation(&format!("C13:{}", kind), detail, case_json(stream, limit, cuts));
        true
    };
    for si in 0..=cuts.len() {
        let end = if si < cuts.len() { cuts[si] } else { stream.len() };
        if end <= start {
            continue;
        }
        if si > 0 && (si + stream.len()) % 2 == 0 {
            if let Some(e) = r.empty_read(si % 4 == 0) {
                return fail(ctx, "fault", e);
            }
            ctx.rep.count("empty_reads_between_segments");
        }
        r.script.push_read(ReadEv::Data(stream[start..end].to_vec(), Vec::new()));
        start = end;
        while r.script.pending_reads() > 0 {
            let before = r.script.pending_read_bytes();
            let so = r.read();
            consumed += before - r.script.pending_read_bytes();
            let stop = match so.res {
                RR::Ok => false,
                RR::Parse(_) => true,
                other => return fail(ctx, "fault", format!("try_read returned {:?}", other)),
            };
            // how many interim responses must exist now
            let due: Vec<u8> = expected.iter().filter(|(_, at)| *at <= consumed).map(|(v, _)| *v).collect();
            let pending_before = r.conn.pending_write();
            // drain
            let mut guard = 0;
            loop {
                let w = guarded(|| r.conn.try_write());
                match w {
                    Err(p) => return fail(ctx, "fault", format!("try_write panicked: {}", p)),
                    Ok(Ok(())) => {}
                    Ok(Err(ConnectionError::InvalidWrite)) => break,
                    Ok(Err(e)) => return fail(ctx, "fault", format!("try_write returned {:?}", e)),
                }
                guard += 1;
                if guard > 64 {
                    return fail(ctx, "fault", "try_write never runs out of output".into());
                }
            }
            written.extend(r.script.take_written());
            let (resps, used, err) = read_all_responses(&written);
            if let Some(e) = err {
                return fail(ctx, "malformed-interim-response", format!("output is not a sequence of responses: {} in {}", e, show(&written)));
            }
            if used != written.len() {
                return fail(ctx, "malformed-interim-response", format!("partial response left after draining: {}", show(&written[used..])));
            }
            let got: Vec<u8> = resps.iter().map(|x| x.version).collect();
            if resps.iter().any(|x| x.code != 100 || x.content_length.is_some() || !x.body.is_empty()) {
                return fail(ctx, "not-a-100", format!("connection wrote something other than a bare 100: {}", show(&written)));
            }
            if got != due {
                let kind = if got.len() < due.len() { "missing-or-late-100" } else if got.len() > due.len() { "unexpected-100" } else { "wrong-version" };
                return fail(
                    ctx,
                    kind,
                    format!(
                        "after {} bytes: interim responses written (versions) {:?}, expected {:?}; qualifying header blocks end at {:?}",
                        consumed, got, due, expected
                    ),
                );
            }
            if pending_before != (guard > 0) {
                return fail(ctx, "pending-write-flag", format!("pending_write()={} but {} writes were possible", pending_before, guard));
            }
            if stop {
                ctx.rep.add("interim_responses_seen", got.len() as u64);
                ctx.rep.count("runs_ending_in_error");
                return false;
            }
            if consumed == stream.len() {
                ctx.rep.add("interim_responses_seen", got.len() as u64);
                if expected.iter().any(|(_, at)| *at == consumed) {
                    ctx.rep.count("checked_with_no_body_byte_supplied");
                }
            } else if expected.iter().any(|(_, at)| *at == consumed) {
                ctx.rep.count("checked_with_no_body_byte_supplied");
            }
        }
    }
    false
}

pub fn run(ctx: &mut Ctx) {
    let quick = ctx.quick();
    let n = ctx.budget(3000, 60000);
    for i in 0..n {
        if !ctx.mine(i) {
            continue;
        }
        let mut rng = ctx.item_rng(0xC13, i);
        let limit = *rng.pick(&[5usize, 64, 1024, 51200]);
        let (s, hdr_ends) = gen_stream(&mut rng, limit);
        ctx.rep.count("streams");
        if ctx.rep.want_sample() {
            ctx.rep.sample(J::obj(vec![("stream", J::s(&show(&s))), ("limit", J::u(limit as u64))]));
        }
        if exec(ctx, &s, limit, &[]) {
            continue;
        }
        // every cut inside / at the end of each header block (headers and body apart)
        let mut bad = false;
        for he in &hdr_ends {
            let lo = he.saturating_sub(if quick { 6 } else { 40 }).max(1);
            for p in lo..=(*he + 2).min(s.len().saturating_sub(1)) {
                if exec(ctx, &s, limit, &[p]) {
                    bad = true;
                    break;
                }
            }
            if bad {
                break;
            }
        }
        if bad {
            continue;
        }
        if !quick || s.len() < 600 {
            for p in (1..s.len()).step_by(if quick { 3 } else { 1 }) {
                if exec(ctx, &s, limit, &[p]) {
                    break;
                }
            }
        }
        for _ in 0..(if quick { 4 } else { 20 }) {
            let cuts = gen::random_cuts(&mut rng, s.len(), 8);
            if exec(ctx, &s, limit, &cuts) {
                break;
            }
        }
        exec(ctx, &s, limit, &gen::const_cuts(s.len(), 1));
    }
    // ---- limits raised above the default and declarations around the default and around the limit:
    // "within the payload limit" is the limit in force on this connection, whatever it is
    let mut idx = 0u64;
    for limit in [51_200usize, 51_201, 60_000, 204_800, u32::MAX as usize] {
        for n in [51_199usize, 51_200, 51_201, 59_999, 60_000, 60_001, 204_800, 204_801, limit - 1, limit, limit.saturating_add(1).min(u32::MAX as usize)] {
            for (ei, (eline, _)) in EXPECT_LINES.iter().enumerate() {
                for version in 0..2usize {
                    idx += 1;
                    if !ctx.mine(idx) {
                        continue;
                    }
                    if quick && (idx + ei as u64) % 3 != 0 {
                        continue;
                    }
                    let mut s = format!("PUT /big HTTP/1.{}\r\n{}\r\nContent-Length: {}\r\n\r\n", version, eline, n).into_bytes();
                    let hdr_end = s.len();
                    // the body is withheld except for a few bytes in some cases
                    if (idx % 4) == 0 {
                        s.extend_from_slice(b"0123456789");
                    }
                    ctx.rep.count("streams_with_large_declarations");
                    if exec(ctx, &s, limit, &[]) {
                        continue;
                    }
                    exec(ctx, &s, limit, &[hdr_end - 1]);
                    exec(ctx, &s, limit, &[hdr_end - 2, hdr_end]);
                }
            }
        }
    }
    server_family(ctx);
}

/// Server level: a client that sends the header block with Expect and withholds the body
/// receives the 100 after bounded polling, then sends the body and the request is yielded.
fn server_family(ctx: &mut Ctx) {
    use crate::hist::{self, Piece, Size};
    use crate::props::c08::{self, P08};
    let quick = ctx.quick();
    let mut p = P08::new(2, 2);
    p.pieces = vec![Piece::Expect, Piece::Get];
    hist::dfs(ctx, &mut p, if quick { 9 } else { 12 }, 3, "C13:server", 6);
    let mut p = P08::new(3, 4);
    p.pieces = vec![Piece::Expect, Piece::Put, Piece::Get, Piece::Two];
    p.sizes = vec![Size::Small, Size::Medium];
    let n = ctx.budget(2_000, 100_000) / ctx.nshards;
    hist::random_histories(ctx, &mut p, n, 10, 60, "C13:server", &mut c08::choose);
}

pub fn replay(ctx: &mut Ctx, case: &J) {
    if case.gs("engine") == "server-simulator" {
        let mut p = crate::props::c08::P08::new(3, 4);
        crate::hist::replay_history(ctx, &mut p, case, "C13:server");
        return;
    }
    let stream = case.ghex("stream_hex");
    let limit = case.gu("limit") as usize;
    let cuts: Vec<usize> = case.garr("cuts").iter().filter_map(|c| c.as_u64()).map(|c| c as usize).collect();
    println!("stream: {}", show(&stream));
    println!("model: {:?}", m1(&stream, limit).events);
    ctx.only_case = None;
    exec(ctx, &stream, limit, &cuts);
}
