//! Scripted in-memory stream: Read + Write + ScmSocket with every read size, write result and
//! errno chosen by the harness, and every call counted.
use std::cell::RefCell;
use std::collections::VecDeque;
use std::io::{Read, Write};
use std::os::unix::io::RawFd;
use std::rc::Rc;

use vmm_sys_util::errno;
use vmm_sys_util::sock_ctrl_msg::ScmSocket;

#[derive(Clone, Debug)]
pub enum ReadEv {
    /// up to this many bytes (capped by what the connection asks for), plus descriptors
    Data(Vec<u8>, Vec<RawFd>),
    WouldBlock,
    Interrupted,
    Err(i32),
    /// zero-length read (peer closed), possibly carrying descriptors
    Eof(Vec<RawFd>),
}

#[derive(Clone, Copy, Debug, PartialEq, Eq)]
pub enum WriteEv {
    /// accept at most k bytes (k >= 1)
    Accept(usize),
    /// accept all but j of the offered bytes (at least 1)
    AcceptAllBut(usize),
    /// accept half of the offered bytes, rounded up
    AcceptHalf,
    Interrupted,
    WouldBlock,
    Err(i32),
    Zero,
}

#[derive(Default)]
pub struct ScriptState {
    pub reads: VecDeque<ReadEv>,
    pub writes: VecDeque<WriteEv>,
    pub recv_calls: u64,
    pub write_calls: u64,
    pub flush_calls: u64,
    pub plain_read_calls: u64,
    /// every byte the stream accepted, in order
    pub written: Vec<u8>,
    /// (offered, result) per write call: result >= 0 accepted bytes, < 0 = -errno
    pub write_log: Vec<(usize, i64)>,
    /// bytes handed out per successful recv
    pub read_sizes: Vec<usize>,
    /// smallest / largest iov_len requested
    pub iov_min: usize,
    pub iov_max: usize,
    /// number of iovecs != 1 or fds capacity seen (sanity)
    pub iov_count_bad: u64,
    pub fds_capacity_min: usize,
}

impl ScriptState {
    /// Drops unconsumed read events, closing the descriptors they still own.
    fn drop_reads(&mut self) {
        for ev in self.reads.drain(..) {
            if let ReadEv::Data(_, fds) | ReadEv::Eof(fds) = ev {
                for fd in fds {
                    // SAFETY: the descriptor was created by the harness for this event and never handed out.
                    unsafe { libc::close(fd) };
                }
            }
        }
    }
}

impl Drop for ScriptState {
    fn drop(&mut self) {
        self.drop_reads();
    }
}

#[derive(Clone)]
pub struct Script(pub Rc<RefCell<ScriptState>>);

impl Script {
    pub fn new() -> Self {
        let mut st = ScriptState::default();
        st.iov_min = usize::MAX;
        st.fds_capacity_min = usize::MAX;
        Script(Rc::new(RefCell::new(st)))
    }
    pub fn push_read(&self, ev: ReadEv) {
        self.0.borrow_mut().reads.push_back(ev);
    }
    pub fn push_write(&self, ev: WriteEv) {
        self.0.borrow_mut().writes.push_back(ev);
    }
    pub fn pending_reads(&self) -> usize {
        self.0.borrow().reads.len()
    }
    pub fn pending_read_bytes(&self) -> usize {
        self.0
            .borrow()
            .reads
            .iter()
            .map(|e| if let ReadEv::Data(d, _) = e { d.len() } else { 0 })
            .sum()
    }
    pub fn clear_writes(&self) {
        self.0.borrow_mut().writes.clear();
    }
    pub fn clear_reads(&self) {
        self.0.borrow_mut().drop_reads();
    }
    pub fn recv_calls(&self) -> u64 {
        self.0.borrow().recv_calls
    }
    pub fn write_calls(&self) -> u64 {
        self.0.borrow().write_calls
    }
    pub fn written_len(&self) -> usize {
        self.0.borrow().written.len()
    }
    pub fn take_written(&self) -> Vec<u8> {
        std::mem::take(&mut self.0.borrow_mut().written)
    }
    pub fn written(&self) -> Vec<u8> {
        self.0.borrow().written.clone()
    }
}

impl Read for Script {
    fn read(&mut self, _buf: &mut [u8]) -> std::io::Result<usize> {
        self.0.borrow_mut().plain_read_calls += 1;
        Err(std::io::Error::from_raw_os_error(libc::EAGAIN))
    }
}

impl Write for Script {
    fn write(&mut self, buf: &[u8]) -> std::io::Result<usize> {
        let mut st = self.0.borrow_mut();
        st.write_calls += 1;
        let ev = st.writes.pop_front().unwrap_or(WriteEv::Accept(usize::MAX));
        let keep_log = st.write_log.len() < 100_000;
        let ev = match ev {
            WriteEv::AcceptAllBut(j) => WriteEv::Accept(buf.len().saturating_sub(j).max(1)),
            WriteEv::AcceptHalf => WriteEv::Accept((buf.len() + 1) / 2),
            other => other,
        };
        match ev {
            WriteEv::AcceptAllBut(_) | WriteEv::AcceptHalf => unreachable!(),
            WriteEv::Accept(k) => {
                let n = k.max(1).min(buf.len());
                st.written.extend_from_slice(&buf[..n]);
                if keep_log {
                    st.write_log.push((buf.len(), n as i64));
                }
                Ok(n)
            }
            WriteEv::Zero => {
                if keep_log {
                    st.write_log.push((buf.len(), 0));
                }
                Ok(0)
            }
            WriteEv::Interrupted => {
                if keep_log {
                    st.write_log.push((buf.len(), -(libc::EINTR as i64)));
                }
                Err(std::io::Error::from_raw_os_error(libc::EINTR))
            }
            WriteEv::WouldBlock => {
                if keep_log {
                    st.write_log.push((buf.len(), -(libc::EAGAIN as i64)));
                }
                Err(std::io::Error::from_raw_os_error(libc::EAGAIN))
            }
            WriteEv::Err(e) => {
                if keep_log {
                    st.write_log.push((buf.len(), -(e as i64)));
                }
                Err(std::io::Error::from_raw_os_error(e))
            }
        }
    }
    fn flush(&mut self) -> std::io::Result<()> {
        self.0.borrow_mut().flush_calls += 1;
        Ok(())
    }
}

impl ScmSocket for Script {
    fn socket_fd(&self) -> RawFd {
        -1
    }

    unsafe fn recv_with_fds(
        &self,
        iovecs: &mut [libc::iovec],
        fds: &mut [RawFd],
    ) -> errno::Result<(usize, usize)> {
        let mut st = self.0.borrow_mut();
        st.recv_calls += 1;
        if iovecs.len() != 1 {
            st.iov_count_bad += 1;
        }
        if fds.len() < st.fds_capacity_min {
            st.fds_capacity_min = fds.len();
        }
        let (base, len) = if iovecs.is_empty() {
            (std::ptr::null_mut::<u8>(), 0usize)
        } else {
            (iovecs[0].iov_base as *mut u8, iovecs[0].iov_len)
        };
        if len < st.iov_min {
            st.iov_min = len;
        }
        if len > st.iov_max {
            st.iov_max = len;
        }
        let ev = st.reads.pop_front().unwrap_or(ReadEv::WouldBlock);
        match ev {
            ReadEv::Data(bytes, pass) => {
                let n = bytes.len().min(len);
                if n > 0 {
                    // Like the kernel: fill exactly the memory the caller described.
                    std::ptr::copy_nonoverlapping(bytes.as_ptr(), base, n);
                }
                if n < bytes.len() {
                    st.reads.push_front(ReadEv::Data(bytes[n..].to_vec(), Vec::new()));
                }
                let k = pass.len().min(fds.len());
                fds[..k].copy_from_slice(&pass[..k]);
                for extra in &pass[k..] {
                    libc::close(*extra); // like the kernel: descriptors that do not fit are discarded
                }
                st.read_sizes.push(n);
                Ok((n, k))
            }
            ReadEv::Eof(pass) => {
                let k = pass.len().min(fds.len());
                fds[..k].copy_from_slice(&pass[..k]);
                Ok((0, k))
            }
            ReadEv::WouldBlock => Err(errno::Error::new(libc::EAGAIN)),
            ReadEv::Interrupted => Err(errno::Error::new(libc::EINTR)),
            ReadEv::Err(e) => Err(errno::Error::new(e)),
        }
    }
}
