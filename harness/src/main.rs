//! mhv — runtime monitors for micro-http. One process = one shard of one property's workload.
//!
//! usage: mhv <PROP> --tier quick|thorough --seed N --shard I --nshards N --out FILE
//!            [--flavor native|relfast|asan|miri] [--only-case N] [--replay FILE]
//!        mhv merge-fp FILE...       (prints the size of the union of fingerprint files)
mod conn;
mod gen;
mod hist;
mod model;
mod props;
mod sim;
mod stream;
mod util;

use std::io::Write;
use std::time::Instant;

use util::{Report, Rng, Tier, J};

pub struct Ctx {
    pub prop: String,
    pub tier: Tier,
    pub seed: u64,
    pub shard: u64,
    pub nshards: u64,
    pub flavor: String,
    pub rep: Report,
    pub rng: Rng,
    pub case_no: u64,
    pub only_case: Option<u64>,
    announce: Option<std::fs::File>,
    pub start: Instant,
    /// workload scale in percent (sanitizer flavours run reduced workloads)
    pub scale: u64,
    pub run_dir: String,
    /// calibration aid: overrides the depth of every exhaustive exploration
    pub dfs_depth: Option<usize>,
}

impl Ctx {
    pub fn quick(&self) -> bool {
        self.tier == Tier::Quick
    }
    /// Is enumerated item `idx` handled by this shard?
    pub fn mine(&self, idx: u64) -> bool {
        idx % self.nshards == self.shard
    }
    /// Starts a case: counts it, announces it, and tells whether to execute it.
    pub fn begin(&mut self) -> bool {
        self.case_no += 1;
        if let Some(o) = self.only_case {
            if o != self.case_no {
                return false;
            }
        }
        if let Some(f) = self.announce.as_mut() {
            use std::os::unix::fs::FileExt;
            let _ = f.write_at(&self.case_no.to_le_bytes(), 0);
        }
        true
    }
    /// pick a budget by tier, scaled for the flavour
    pub fn budget(&self, quick: u64, thorough: u64) -> u64 {
        let b = if self.quick() { quick } else { thorough };
        (b * self.scale / 100).max(1)
    }
    pub fn secs(&self) -> f64 {
        self.start.elapsed().as_secs_f64()
    }
    /// A PRNG that depends on the seed and a family/item tag only (not on the shard), so that
    /// enumerated families are the same however they are sharded.
    pub fn item_rng(&self, family: u64, idx: u64) -> Rng {
        Rng::new(self.seed ^ family.wrapping_mul(0x9E3779B97F4A7C15) ^ idx.wrapping_mul(0xD1342543DE82EF95))
    }
}

fn arg<'a>(args: &'a [String], name: &str) -> Option<&'a str> {
    args.iter().position(|a| a == name).and_then(|i| args.get(i + 1)).map(|s| s.as_str())
}

fn main() {
    let args: Vec<String> = std::env::args().collect();
    if args.len() < 2 {
        eprintln!("usage: mhv <PROP> --tier .. --seed .. --shard .. --nshards .. --out ..");
        std::process::exit(2);
    }
    if args[1] == "merge-fp" {
        let mut set: std::collections::HashSet<u64> = std::collections::HashSet::new();
        for f in &args[2..] {
            if let Ok(b) = std::fs::read(f) {
                for c in b.chunks_exact(8) {
                    set.insert(u64::from_le_bytes([c[0], c[1], c[2], c[3], c[4], c[5], c[6], c[7]]));
                }
            }
        }
        println!("{}", set.len());
        return;
    }
    let prop = args[1].to_uppercase();
    let tier = match arg(&args, "--tier").unwrap_or("quick") {
        "thorough" => Tier::Thorough,
        _ => Tier::Quick,
    };
    let seed: u64 = arg(&args, "--seed").and_then(|s| s.parse().ok()).unwrap_or(1);
    let shard: u64 = arg(&args, "--shard").and_then(|s| s.parse().ok()).unwrap_or(0);
    let nshards: u64 = arg(&args, "--nshards").and_then(|s| s.parse().ok()).unwrap_or(1).max(1);
    let out = arg(&args, "--out").unwrap_or("/dev/stdout").to_string();
    let flavor = arg(&args, "--flavor").unwrap_or("native").to_string();
    let only_case: Option<u64> = arg(&args, "--only-case").and_then(|s| s.parse().ok());
    let scale: u64 = arg(&args, "--scale").and_then(|s| s.parse().ok()).unwrap_or(100);
    let run_dir = arg(&args, "--run-dir").unwrap_or("").to_string();
    let announce = arg(&args, "--announce").and_then(|p| std::fs::OpenOptions::new().create(true).write(true).truncate(true).open(p).ok());

    conn::install_panic_hook();
    sim::JUDGE_INTERIM_VERSION.store(prop == "C13", std::sync::atomic::Ordering::Relaxed);

    // Every fourth shard runs like a daemon started with stdin closed: descriptor number 0 is free, so
    // listeners, accepted sockets, event descriptors and descriptors received over a socket get the number 0
    // at some point. (A replay file records it, see Report::violation.) Not under Miri.
    let replay_path = arg(&args, "--replay");
    let mut fd0_free = shard % 4 == 3 && flavor != "miri" && replay_path.is_none();
    if let Some(path) = replay_path {
        if let Ok(text) = std::fs::read_to_string(path) {
            fd0_free = text.contains("\"descriptor_0_free\": true") || text.contains("\"descriptor_0_free\":true");
        }
    }
    if fd0_free {
        // SAFETY: the harness never reads standard input.
        unsafe { libc::close(0) };
        util::DESCRIPTOR_0_FREE.store(true, std::sync::atomic::Ordering::Relaxed);
    }

    let mut ctx = Ctx {
        prop: prop.clone(),
        tier,
        seed,
        shard,
        nshards,
        flavor,
        rep: Report::new(&prop),
        rng: Rng::new(seed.wrapping_mul(0x9E3779B97F4A7C15) ^ (shard + 1).wrapping_mul(0xD6E8FEB86659FD93)),
        case_no: 0,
        only_case,
        announce,
        start: Instant::now(),
        scale,
        run_dir,
        dfs_depth: arg(&args, "--dfs-depth").and_then(|s| s.parse().ok()),
    };

    if let Some(path) = arg(&args, "--replay") {
        let text = std::fs::read_to_string(path).expect("read replay file");
        let j = J::parse(&text).expect("parse replay file");
        let case = j.get("case").cloned().unwrap_or(J::Null);
        props::replay(&mut ctx, &case);
        let n = ctx.rep.violations.len();
        for v in &ctx.rep.violations {
            println!("REPRODUCED sig={} detail={}", v.sig, v.detail);
        }
        if n == 0 {
            println!("NOT-REPRODUCED");
        }
        let _ = std::io::stdout().flush();
        if out != "/dev/stdout" {
            ctx.rep.write(&out);
        }
        std::process::exit(if n > 0 { 1 } else { 0 });
    }

    if fd0_free {
        ctx.rep.count("shards_run_with_descriptor_0_free");
    }
    props::run(&mut ctx);
    ctx.rep.add("cases_begun", ctx.case_no);
    if out == "/dev/stdout" {
        println!("{}", ctx.rep.to_json().to_string());
    } else {
        ctx.rep.write(&out);
    }
}
