//! Deterministic server-history simulator: one thread drives a real `HttpServer` and real
//! non-blocking `UnixStream` clients through a list of actions. Unix sockets deliver
//! synchronously inside one process, so the same action list reproduces the same execution.
use std::collections::BTreeSet;
use std::io::{Read, Write};
use std::os::unix::io::{AsRawFd, FromRawFd, RawFd};
use std::os::unix::net::UnixStream;
use std::sync::atomic::{AtomicU64, Ordering};

use micro_http::{Body, HttpServer, Response, ServerError, ServerRequest, StatusCode, Version};
use vmm_sys_util::eventfd::EventFd;

use crate::conn::guarded;
use crate::model::{m1, read_response, M1Event, RespParse, RespView};

pub const FULL_503: &[u8] = b"HTTP/1.1 503\r\nServer: Firecracker API\r\nConnection: close\r\nContent-Length: 40\r\n\r\n{ \"error\": \"Too many open connections\" }";

static COUNTER: AtomicU64 = AtomicU64::new(0);

// ------------------------------------------------------------------ kernel-side observations

/// Open descriptor numbers in 0..limit.
pub fn open_fds(limit: i32) -> Vec<i32> {
    (0..limit).filter(|fd| unsafe { libc::fcntl(*fd, libc::F_GETFD) } != -1).collect()
}

pub fn is_socket(fd: i32) -> bool {
    // SAFETY: fstat on an arbitrary number only fills the local struct.
    unsafe {
        let mut st: libc::stat = std::mem::zeroed();
        libc::fstat(fd, &mut st) == 0 && (st.st_mode & libc::S_IFMT) == libc::S_IFSOCK
    }
}

/// (descriptor, event mask) pairs registered in the epoll instance, from /proc/self/fdinfo.
pub fn epoll_interest(epfd: RawFd) -> Vec<(i32, u32)> {
    let mut out = Vec::new();
    if let Ok(text) = std::fs::read_to_string(format!("/proc/self/fdinfo/{}", epfd)) {
        for line in text.lines() {
            if let Some(rest) = line.strip_prefix("tfd:") {
                let parts: Vec<&str> = rest.split_whitespace().collect();
                // tfd: <fd> events: <hex> data: <hex> ...
                if parts.len() >= 3 {
                    if let (Ok(fd), Ok(ev)) = (parts[0].parse::<i32>(), u32::from_str_radix(parts[2], 16)) {
                        out.push((fd, ev));
                    }
                }
            }
        }
    }
    out
}

/// Zero-timeout poll(2): is the descriptor readable right now?
pub fn readable_now(fd: RawFd) -> bool {
    let mut p = libc::pollfd { fd, events: libc::POLLIN, revents: 0 };
    // SAFETY: one valid pollfd, zero timeout.
    let r = unsafe { libc::poll(&mut p, 1, 0) };
    r > 0 && (p.revents & libc::POLLIN) != 0
}

/// sockaddr_un for an abstract name (leading NUL) or a path.
fn sockaddr_un(name: &[u8], is_abstract: bool) -> (libc::sockaddr_un, libc::socklen_t) {
    // SAFETY: all-zero is a valid sockaddr_un.
    let mut a: libc::sockaddr_un = unsafe { std::mem::zeroed() };
    a.sun_family = libc::AF_UNIX as libc::sa_family_t;
    let off = if is_abstract { 1 } else { 0 };
    for (i, b) in name.iter().enumerate().take(a.sun_path.len() - 2) {
        a.sun_path[i + off] = *b as libc::c_char;
    }
    let len = std::mem::size_of::<libc::sa_family_t>() + off + name.len().min(a.sun_path.len() - 2) + if is_abstract { 0 } else { 1 };
    (a, len as libc::socklen_t)
}

/// A listening abstract-namespace socket.
fn listen_abstract(name: &[u8]) -> Result<RawFd, String> {
    // SAFETY: plain socket/bind/listen on a fresh descriptor.
    unsafe {
        let fd = libc::socket(libc::AF_UNIX, libc::SOCK_STREAM | libc::SOCK_CLOEXEC, 0);
        if fd < 0 {
            return Err("socket".into());
        }
        let (a, l) = sockaddr_un(name, true);
        if libc::bind(fd, &a as *const _ as *const libc::sockaddr, l) != 0 || libc::listen(fd, 128) != 0 {
            libc::close(fd);
            return Err(format!("bind/listen: {}", std::io::Error::last_os_error()));
        }
        Ok(fd)
    }
}

/// Connects a client whose own end is bound to the abstract name `my_name`, so that the
/// accepted socket on the server side can be attributed with getpeername().
fn connect_named(server: &[u8], server_abstract: bool, my_name: &[u8]) -> Result<UnixStream, String> {
    // SAFETY: plain socket/bind/connect on a fresh descriptor that is then owned by the UnixStream.
    unsafe {
        let fd = libc::socket(libc::AF_UNIX, libc::SOCK_STREAM | libc::SOCK_CLOEXEC, 0);
        if fd < 0 {
            return Err("socket".into());
        }
        let (a, l) = sockaddr_un(my_name, true);
        if libc::bind(fd, &a as *const _ as *const libc::sockaddr, l) != 0 {
            libc::close(fd);
            return Err(format!("bind client: {}", std::io::Error::last_os_error()));
        }
        let (sa, sl) = sockaddr_un(server, server_abstract);
        if libc::connect(fd, &sa as *const _ as *const libc::sockaddr, sl) != 0 {
            libc::close(fd);
            return Err(format!("connect: {}", std::io::Error::last_os_error()));
        }
        Ok(UnixStream::from_raw_fd(fd))
    }
}

/// Abstract name the peer of `fd` is bound to, if any.
fn peer_name(fd: RawFd) -> Option<Vec<u8>> {
    // SAFETY: getpeername fills the local struct.
    unsafe {
        let mut a: libc::sockaddr_un = std::mem::zeroed();
        let mut l = std::mem::size_of::<libc::sockaddr_un>() as libc::socklen_t;
        if libc::getpeername(fd, &mut a as *mut _ as *mut libc::sockaddr, &mut l) != 0 {
            return None;
        }
        let n = (l as usize).saturating_sub(std::mem::size_of::<libc::sa_family_t>());
        if n < 2 || a.sun_path[0] != 0 {
            return None;
        }
        Some(a.sun_path[1..n].iter().map(|c| *c as u8).collect())
    }
}

fn inode_of(fd: RawFd) -> u64 {
    // SAFETY: fstat fills the local struct.
    unsafe {
        let mut st: libc::stat = std::mem::zeroed();
        if libc::fstat(fd, &mut st) == 0 {
            st.st_ino as u64
        } else {
            0
        }
    }
}

fn is_listening(fd: RawFd) -> bool {
    let mut v: libc::c_int = 0;
    let mut l = std::mem::size_of::<libc::c_int>() as libc::socklen_t;
    // SAFETY: getsockopt writes an int.
    let r = unsafe { libc::getsockopt(fd, libc::SOL_SOCKET, libc::SO_ACCEPTCONN, &mut v as *mut _ as *mut libc::c_void, &mut l) };
    r == 0 && v != 0
}

// ------------------------------------------------------------------ client generations

#[derive(Clone, Copy, Debug, PartialEq, Eq)]
pub enum Admission {
    Pending,
    Accepted,
    Refused,
}

pub struct GenRec {
    pub client: usize,
    pub gen: usize,
    pub stream: Option<UnixStream>,
    pub fd: RawFd,
    pub sent: Vec<u8>,
    pub recv: Vec<u8>,
    pub eof_seen: bool,
    pub read_err: Option<i32>,
    pub client_closed: bool,
    pub shut_rd: bool,
    pub shut_wr: bool,
    pub admission: Admission,
    /// payload limit configured on the server when this client was accepted
    pub limit_at_accept: usize,
    /// number of requests this generation has started to send
    pub seq: usize,
    /// bytes of a request whose first part has been sent (Head -> Rest)
    pub pending_rest: Option<Vec<u8>>,
    /// tags yielded to the application, in order
    pub yielded: Vec<String>,
    /// tags answered by the application, in the order supplied, with the response body length
    pub supplied: Vec<(String, usize)>,
    /// requests the client has sent completely (tags, in order) — harness truth
    pub completed: Vec<String>,
    pub connect_step: usize,
    pub close_step: Option<usize>,
    /// a send to this generation failed (EPIPE...) — the client can no longer talk
    pub send_failed: bool,
    /// a server-side socket whose peer is this generation has been observed
    pub had_server_socket: bool,
    /// number of send actions performed on this generation
    pub sends: usize,
    /// number of the polling call after which the admission was decided, and the number of
    /// connections the server's epoll set held before that call
    pub decided_poll: Option<u64>,
    pub decided_entries: usize,
    /// step at which the client shut down its reading side
    pub shut_rd_step: Option<usize>,
    /// steps at which the application supplied responses for this generation
    pub supplied_steps: Vec<usize>,
    /// the client did something a well-behaved client does not do (half-close, malformed or oversize input)
    pub misbehaved: bool,
}

impl GenRec {
    pub fn tag_prefix(&self) -> String {
        format!("/c{}g{}r", self.client, self.gen)
    }
    pub fn open(&self) -> bool {
        self.stream.is_some() && !self.client_closed
    }
}

pub struct Outstanding {
    pub sreq: ServerRequest,
    pub tag: String,
    pub gen_idx: Option<usize>,
    pub yield_step: usize,
}

#[derive(Debug, Clone, PartialEq, Eq)]
pub enum PollOut {
    /// the epoll descriptor was not readable: requests() would block, so it was not called
    Idle,
    Yielded(usize),
    Shutdown,
    Err(String),
    Panic(String),
}

pub struct Sim {
    pub server: HttpServer,
    pub epfd: RawFd,
    pub listener_fd: RawFd,
    pub kill: Option<EventFd>,
    pub kill_fd: RawFd,
    server_name: Vec<u8>,
    server_abstract: bool,
    sock_path: Option<String>,
    uniq: u64,
    pub gens: Vec<GenRec>,
    /// current generation index per logical client
    pub current: Vec<Option<usize>>,
    pub outstanding: Vec<Outstanding>,
    pub step: usize,
    pub polls: u64,
    pub idle_polls: u64,
    pub limit: usize,
    /// every Err / panic from requests(), respond(), flush — (step, text)
    pub api_errors: Vec<(usize, String)>,
    /// yields whose URI carries no known tag
    pub untagged_yields: Vec<String>,
    /// coverage: calls of `enqueue_responses` and the largest batch handed to it
    pub batches: usize,
    pub batch_max: usize,
    /// the request answered last (kept so that the application can misbehave and answer it again)
    /// the application has changed the payload limit at least once in this history
    pub limit_changed: bool,
    pub last_answered: Option<Outstanding>,
    /// results of surplus responses (not API errors: the application asked for them)
    pub surplus_results: Vec<String>,
    pub shutdown_seen: u64,
    /// max ticks seen in one requests() call
    pub max_ticks: u64,
    pub fd_scan_limit: i32,
    /// read the epoll set before every polling call (capacity monitors)
    pub track_entries: bool,
    pub entries_before_poll: usize,
    /// descriptors that were open before this simulator was created (stdio, report files...)
    pub baseline: BTreeSet<i32>,
    /// server-side socket -> (generation, inode), remembered from when the peer was still alive
    sock_owner: std::cell::RefCell<std::collections::HashMap<i32, (usize, u64)>>,
}

/// The HTTP minor version a client uses for the request with this tag (a third are HTTP/1.0).
pub fn tag_version(tag: &str) -> u8 {
    if crate::util::fnv64(tag.as_bytes()) % 3 == 0 {
        0
    } else {
        1
    }
}

pub fn make_request(tag: &str, kind: ReqKind) -> Vec<u8> {
    let minor = tag_version(tag);
    match kind {
        ReqKind::Get => format!("GET {} HTTP/1.{}\r\nX-Tag: {}\r\n\r\n", tag, minor, tag).into_bytes(),
        ReqKind::PutBody(n) => {
            let mut body = format!("<{}>", tag).into_bytes();
            while body.len() < n {
                body.push(b'b');
            }
            body.truncate(n.max(1));
            let mut v = format!("PUT {} HTTP/1.{}\r\nContent-Type: application/json\r\nContent-Length: {}\r\n\r\n", tag, minor, body.len()).into_bytes();
            v.extend_from_slice(&body);
            v
        }
        ReqKind::PutExpect(n) => {
            let mut body = format!("<{}>", tag).into_bytes();
            while body.len() < n {
                body.push(b'e');
            }
            body.truncate(n.max(1));
            let mut v = format!("PUT {} HTTP/1.{}\r\nExpect: 100-continue\r\nContent-Length: {}\r\n\r\n", tag, minor, body.len()).into_bytes();
            v.extend_from_slice(&body);
            v
        }
    }
}

#[derive(Clone, Copy, Debug, PartialEq, Eq)]
pub enum ReqKind {
    Get,
    PutBody(usize),
    PutExpect(usize),
}

impl Sim {
    /// `use_path`: bind a path under `run_dir` through HttpServer::new instead of an abstract name.
    pub fn new(with_kill: bool, run_dir: Option<&str>) -> Result<Sim, String> {
        let baseline: BTreeSet<i32> = open_fds(256).into_iter().collect();
        let n = COUNTER.fetch_add(1, Ordering::Relaxed);
        let name = format!("mhv-{}-{}", std::process::id(), n);
        // in the shards that run with standard input closed the kill-switch descriptor is created BEFORE the
        // listener, so that it is the one that gets number 0 (in simulators without a kill switch the listener does)
        let mut early_kill: Option<EventFd> = None;
        if with_kill && crate::util::DESCRIPTOR_0_FREE.load(Ordering::Relaxed) {
            early_kill = Some(EventFd::new(libc::EFD_NONBLOCK).map_err(|e| e.to_string())?);
        }
        let (mut server, server_name, server_abstract, sock_path, listener_fd) = match run_dir {
            Some(dir) if !dir.is_empty() => {
                let path = format!("{}/s-{}-{}.sock", dir, std::process::id(), n);
                let _ = std::fs::remove_file(&path);
                let server = HttpServer::new(&path).map_err(|e| format!("HttpServer::new: {:?}", e))?;
                (server, path.clone().into_bytes(), false, Some(path), -1)
            }
            _ => {
                let fd = listen_abstract(name.as_bytes())?;
                // SAFETY: fd is a fresh listener solely owned by the server from here on.
                let server = unsafe { HttpServer::new_from_fd(fd) }.map_err(|e| format!("new_from_fd: {:?}", e))?;
                (server, name.clone().into_bytes(), true, None, fd)
            }
        };
        let mut kill = None;
        let mut kill_fd = -1;
        if with_kill {
            let k = match early_kill.take() {
                Some(k) => k,
                None => EventFd::new(libc::EFD_NONBLOCK).map_err(|e| e.to_string())?,
            };
            let k2 = k.try_clone().map_err(|e| e.to_string())?;
            kill_fd = k.as_raw_fd();
            server.add_kill_switch(k).map_err(|e| format!("add_kill_switch: {:?}", e))?;
            kill = Some(k2);
        }
        server.start_server().map_err(|e| format!("start_server: {:?}", e))?;
        let epfd = server.epoll().as_raw_fd();
        Ok(Sim {
            server,
            epfd,
            listener_fd,
            kill,
            kill_fd,
            server_name,
            server_abstract,
            sock_path,
            uniq: n,
            gens: Vec::new(),
            current: Vec::new(),
            outstanding: Vec::new(),
            step: 0,
            polls: 0,
            idle_polls: 0,
            limit: 51200,
            api_errors: Vec::new(),
            untagged_yields: Vec::new(),
            batches: 0,
            batch_max: 0,
            limit_changed: false,
            last_answered: None,
            surplus_results: Vec::new(),
            shutdown_seen: 0,
            max_ticks: 0,
            fd_scan_limit: 96,
            track_entries: false,
            entries_before_poll: 0,
            baseline,
            sock_owner: std::cell::RefCell::new(std::collections::HashMap::new()),
        })
    }

    pub fn gen_of(&self, client: usize) -> Option<usize> {
        self.current.get(client).copied().flatten()
    }

    pub fn connect(&mut self, client: usize) -> bool {
        self.step += 1;
        while self.current.len() <= client {
            self.current.push(None);
        }
        let gen = self.gens.iter().filter(|g| g.client == client).count();
        let my_name = format!("mhvc-{}-{}-{}-{}", std::process::id(), self.uniq, client, gen);
        let s = match connect_named(&self.server_name, self.server_abstract, my_name.as_bytes()) {
            Ok(s) => s,
            Err(_) => return false,
        };
        let _ = s.set_nonblocking(true);
        let fd = s.as_raw_fd();
        self.gens.push(GenRec {
            client,
            gen,
            stream: Some(s),
            fd,
            sent: Vec::new(),
            recv: Vec::new(),
            eof_seen: false,
            read_err: None,
            client_closed: false,
            shut_rd: false,
            shut_wr: false,
            admission: Admission::Pending,
            limit_at_accept: self.limit,
            seq: 0,
            pending_rest: None,
            yielded: Vec::new(),
            supplied: Vec::new(),
            completed: Vec::new(),
            connect_step: self.step,
            close_step: None,
            send_failed: false,
            had_server_socket: false,
            sends: 0,
            decided_poll: None,
            decided_entries: 0,
            shut_rd_step: None,
            supplied_steps: Vec::new(),
            misbehaved: false,
        });
        self.current[client] = Some(self.gens.len() - 1);
        true
    }

    /// Raw send of bytes; returns how many were accepted by the socket.
    pub fn send_bytes(&mut self, gi: usize, data: &[u8]) -> usize {
        self.step += 1;
        let g = &mut self.gens[gi];
        g.sends += 1;
        let mut done = 0;
        if let Some(s) = g.stream.as_mut() {
            while done < data.len() {
                match s.write(&data[done..]) {
                    Ok(0) => break,
                    Ok(n) => done += n,
                    Err(e) if e.kind() == std::io::ErrorKind::Interrupted => continue,
                    Err(e) if e.kind() == std::io::ErrorKind::WouldBlock => break,
                    Err(_) => {
                        g.send_failed = true;
                        break;
                    }
                }
            }
        }
        g.sent.extend_from_slice(&data[..done]);
        done
    }

    /// Starts a new tagged request on generation `gi` and returns (tag, bytes).
    pub fn next_request(&mut self, gi: usize, kind: ReqKind) -> (String, Vec<u8>) {
        let g = &mut self.gens[gi];
        let tag = format!("{}{}", g.tag_prefix(), g.seq);
        g.seq += 1;
        (tag.clone(), make_request(&tag, kind))
    }

    /// Sends a whole request; records it as completed when every byte was accepted.
    pub fn send_request(&mut self, gi: usize, kind: ReqKind) -> bool {
        let (tag, bytes) = self.next_request(gi, kind);
        let n = self.send_bytes(gi, &bytes);
        if n == bytes.len() {
            self.gens[gi].completed.push(tag);
            true
        } else {
            // a partially sent request: remember the rest so that the client can finish it
            self.gens[gi].pending_rest = Some(bytes[n..].to_vec());
            self.gens[gi].completed.push(format!("?{}", tag));
            false
        }
    }

    /// Sends the first `cut` bytes of a new request; `finish_request` sends the rest.
    pub fn send_head(&mut self, gi: usize, kind: ReqKind, cut: usize) {
        let (tag, bytes) = self.next_request(gi, kind);
        let cut = cut.min(bytes.len() - 1).max(1);
        let n = self.send_bytes(gi, &bytes[..cut]);
        self.gens[gi].pending_rest = Some(bytes[n..].to_vec());
        self.gens[gi].completed.push(format!("?{}", tag));
    }

    pub fn finish_request(&mut self, gi: usize) -> bool {
        let rest = match self.gens[gi].pending_rest.take() {
            Some(r) => r,
            None => return false,
        };
        let n = self.send_bytes(gi, &rest);
        if n == rest.len() {
            if let Some(last) = self.gens[gi].completed.last_mut() {
                if last.starts_with('?') {
                    *last = last[1..].to_string();
                }
            }
            true
        } else {
            self.gens[gi].pending_rest = Some(rest[n..].to_vec());
            false
        }
    }

    /// Reads up to `max` bytes (0 = everything available) from the client socket.
    pub fn drain(&mut self, gi: usize, max: usize) -> usize {
        self.step += 1;
        let g = &mut self.gens[gi];
        let mut total = 0;
        if g.eof_seen {
            return 0;
        }
        if let Some(s) = g.stream.as_mut() {
            let mut buf = vec![0u8; 65536];
            loop {
                let want = if max == 0 { buf.len() } else { (max - total).min(buf.len()) };
                if want == 0 {
                    break;
                }
                match s.read(&mut buf[..want]) {
                    Ok(0) => {
                        g.eof_seen = true;
                        break;
                    }
                    Ok(n) => {
                        g.recv.extend_from_slice(&buf[..n]);
                        total += n;
                    }
                    Err(e) if e.kind() == std::io::ErrorKind::Interrupted => continue,
                    Err(e) if e.kind() == std::io::ErrorKind::WouldBlock => break,
                    Err(e) => {
                        g.read_err = e.raw_os_error();
                        g.eof_seen = true;
                        break;
                    }
                }
            }
        }
        total
    }

    pub fn drain_all(&mut self) -> usize {
        let mut t = 0;
        for gi in 0..self.gens.len() {
            if self.gens[gi].stream.is_some() && !self.gens[gi].shut_rd {
                t += self.drain(gi, 0);
            }
        }
        t
    }

    pub fn has_unread(&self, gi: usize) -> bool {
        match &self.gens[gi].stream {
            Some(s) if !self.gens[gi].eof_seen && !self.gens[gi].shut_rd => readable_now(s.as_raw_fd()),
            _ => false,
        }
    }

    pub fn close(&mut self, gi: usize) {
        self.step += 1;
        let step = self.step;
        let g = &mut self.gens[gi];
        g.stream = None; // drops and closes
        g.client_closed = true;
        g.close_step = Some(step);
        if self.current[g.client] == Some(gi) {
            self.current[g.client] = None;
        }
    }

    pub fn shutdown(&mut self, gi: usize, how: std::net::Shutdown) {
        self.step += 1;
        let g = &mut self.gens[gi];
        g.misbehaved = true;
        if let Some(s) = g.stream.as_ref() {
            let _ = s.shutdown(how);
        }
        match how {
            std::net::Shutdown::Read => {
                g.shut_rd = true;
                g.shut_rd_step = Some(self.step);
            }
            std::net::Shutdown::Write => g.shut_wr = true,
            std::net::Shutdown::Both => {
                g.shut_rd = true;
                g.shut_wr = true;
            }
        }
    }

    pub fn ready(&self) -> bool {
        readable_now(self.epfd)
    }

    /// "Quiet with deliverable output": the epoll descriptor is not readable although an open
    /// connection has unsent output AND its socket accepts writes right now (a caller that only polls
    /// on readiness would block with work outstanding; nothing the client has to do first).
    /// Both observations use the kernel's own predicates, nothing runs in between.
    pub fn quiet_with_deliverable_output(&self) -> Option<String> {
        if self.ready() {
            return None;
        }
        for c in self.server.verif_probe() {
            let pending = c.connection.response_queue > 0 || c.connection.response_buffer.is_some();
            if !pending || c.state == 2 {
                continue;
            }
            let mut pfd = libc::pollfd { fd: c.fd, events: libc::POLLOUT, revents: 0 };
            // SAFETY: one valid pollfd, zero timeout.
            let n = unsafe { libc::poll(&mut pfd, 1, 0) };
            if n == 1 && pfd.revents & libc::POLLOUT != 0 && pfd.revents & (libc::POLLHUP | libc::POLLERR) == 0 {
                return Some(format!(
                    "the epoll descriptor is not readable, yet connection {} (state {}) has {} queued response(s){} and its socket is writable",
                    c.fd,
                    c.state,
                    c.connection.response_queue,
                    if c.connection.response_buffer.is_some() { " plus a partly written one" } else { "" }
                ));
            }
        }
        None
    }

    /// "Idle with a releasable connection": the epoll descriptor is not readable (a caller that polls on
    /// readiness will not call the server again until something new happens), yet the server still holds the
    /// socket of a client that has left (closed, or shut down its sending side) and to which nothing is owed
    /// any more. "Released as soon as the application has answered" cannot happen any more without an
    /// unrelated event. Both observations are the kernel's; nothing runs in between.
    pub fn idle_with_releasable_connection(&self) -> Option<String> {
        if self.ready() {
            return None;
        }
        let socks = self.server_side_sockets();
        for (gi, g) in self.gens.iter().enumerate() {
            if !(g.client_closed || g.shut_wr) || g.admission != Admission::Accepted {
                continue;
            }
            if self.owed(g) || self.outstanding.iter().any(|o| o.gen_idx == Some(gi)) {
                continue;
            }
            if socks.iter().any(|(_, x)| *x == Some(gi)) {
                return Some(format!(
                    "c{}g{} has left ({}), all {} requests yielded from it are answered, the epoll descriptor is not readable, and the server still holds its socket: nothing will release it until some unrelated event",
                    g.client,
                    g.gen,
                    if g.client_closed { "closed" } else { "shut down its sending side" },
                    g.yielded.len()
                ));
            }
        }
        None
    }

    /// One gated call of requests(): never called when the epoll descriptor is not readable.
    pub fn poll(&mut self) -> PollOut {
        let r = self.poll_inner();
        if r != PollOut::Idle {
            // remember which server-side socket belongs to whom while the peers are alive
            self.observe_admissions();
        }
        r
    }

    fn poll_inner(&mut self) -> PollOut {
        self.step += 1;
        if !self.ready() {
            self.idle_polls += 1;
            return PollOut::Idle;
        }
        self.polls += 1;
        if self.track_entries {
            self.entries_before_poll = self.epoll_entries().len();
        }
        micro_http::verif::arm(40_000);
        let r = guarded(|| self.server.requests());
        let ticks = micro_http::verif::disarm();
        self.max_ticks = self.max_ticks.max(ticks);
        match r {
            Err(p) => {
                self.api_errors.push((self.step, format!("requests() panicked: {}", p)));
                PollOut::Panic(p)
            }
            Ok(Err(ServerError::ShutdownEvent)) => {
                self.shutdown_seen += 1;
                PollOut::Shutdown
            }
            Ok(Err(e)) => {
                let t = format!("requests() returned Err({:?})", e);
                self.api_errors.push((self.step, t.clone()));
                PollOut::Err(t)
            }
            Ok(Ok(reqs)) => {
                let n = reqs.len();
                for sreq in reqs {
                    let path = sreq.request.uri().get_abs_path().to_string();
                    let gen_idx = self.gens.iter().position(|g| path.starts_with(&g.tag_prefix()) && path[g.tag_prefix().len()..].chars().all(|c| c.is_ascii_digit()) && path.len() > g.tag_prefix().len());
                    match gen_idx {
                        Some(gi) => self.gens[gi].yielded.push(path.clone()),
                        None => self.untagged_yields.push(path.clone()),
                    }
                    self.outstanding.push(Outstanding { sreq, tag: path, gen_idx, yield_step: self.step });
                }
                PollOut::Yielded(n)
            }
        }
    }

    /// The application answers outstanding request number `oi` with a body of `size` bytes
    /// that starts with the request's tag.
    pub fn respond(&mut self, oi: usize, size: usize) -> bool {
        self.step += 1;
        let o = self.outstanding.remove(oi);
        let mut body = format!("{}|", o.tag).into_bytes();
        while body.len() < size {
            body.push(b'r');
        }
        let blen = body.len();
        let resp = o.sreq.process(|req| {
            let mut r = Response::new(req.http_version(), StatusCode::OK);
            r.set_body(Body::new(body.clone()));
            r
        });
        if let Some(gi) = o.gen_idx {
            self.gens[gi].supplied.push((o.tag.clone(), blen));
            self.gens[gi].supplied_steps.push(self.step);
        }
        self.last_answered = Some(o);
        match guarded(|| self.server.respond(resp)) {
            Err(p) => {
                self.api_errors.push((self.step, format!("respond() panicked: {}", p)));
                false
            }
            Ok(Err(e)) => {
                self.api_errors.push((self.step, format!("respond() returned Err({:?})", e)));
                false
            }
            Ok(Ok(())) => true,
        }
    }

    /// Application misuse: a second (surplus) response for the request answered last. Whatever
    /// `respond` says about it is recorded apart from the API errors; a panic is still an API error.
    pub fn respond_again(&mut self) -> bool {
        let resp = match &self.last_answered {
            Some(o) => {
                let body = format!("{}|surplus", o.tag).into_bytes();
                o.sreq.process(|req| {
                    let mut r = Response::new(req.http_version(), StatusCode::OK);
                    r.set_body(Body::new(body.clone()));
                    r
                })
            }
            None => return false,
        };
        self.step += 1;
        match guarded(|| self.server.respond(resp)) {
            Err(p) => self.api_errors.push((self.step, format!("respond() panicked on a surplus response: {}", p))),
            Ok(r) => self.surplus_results.push(format!("{:?}", r)),
        }
        true
    }

    /// The application answers every outstanding request with ONE call of `enqueue_responses`;
    /// `order[k]` is the index (into `outstanding`) of the k-th response of the batch.
    pub fn respond_batch(&mut self, order: &[usize], size: usize) -> bool {
        self.step += 1;
        let mut taken: Vec<Option<Outstanding>> = std::mem::take(&mut self.outstanding).into_iter().map(Some).collect();
        let mut batch = Vec::new();
        for &i in order {
            let o = match taken[i].take() {
                Some(o) => o,
                None => continue,
            };
            let mut body = format!("{}|", o.tag).into_bytes();
            while body.len() < size {
                body.push(b'r');
            }
            let blen = body.len();
            batch.push(o.sreq.process(|req| {
                let mut r = Response::new(req.http_version(), StatusCode::OK);
                r.set_body(Body::new(body.clone()));
                r
            }));
            if let Some(gi) = o.gen_idx {
                self.gens[gi].supplied.push((o.tag.clone(), blen));
                self.gens[gi].supplied_steps.push(self.step);
            }
        }
        // anything the permutation did not name stays outstanding
        self.outstanding = taken.into_iter().flatten().collect();
        self.batches += 1;
        self.batch_max = self.batch_max.max(batch.len());
        match guarded(|| self.server.enqueue_responses(batch)) {
            Err(p) => {
                self.api_errors.push((self.step, format!("enqueue_responses() panicked: {}", p)));
                false
            }
            Ok(Err(e)) => {
                self.api_errors.push((self.step, format!("enqueue_responses() returned Err({:?})", e)));
                false
            }
            Ok(Ok(())) => true,
        }
    }

    /// Witness macro step: send one GET, poll (gated) until it is yielded, answer it, poll until the
    /// response has arrived in full. Requests of other clients yielded meanwhile stay outstanding.
    /// Returns the number of requests() calls used, or why the round trip did not complete.
    pub fn round_trip(&mut self, client: usize, max_polls: usize) -> Result<usize, String> {
        let gi = match self.gen_of(client) {
            Some(g) => g,
            None => return Err("witness is not connected".into()),
        };
        let before = self.gens[gi].supplied.len();
        let (tag, bytes) = self.next_request(gi, ReqKind::Get);
        if self.send_bytes(gi, &bytes) != bytes.len() {
            return Err("witness could not send its request".into());
        }
        self.gens[gi].completed.push(tag.clone());
        let mut calls = 0;
        let mut answered = false;
        loop {
            self.drain(gi, 0);
            if answered {
                if let Ok(v) = judge_client(&self.gens[gi], &JudgeOpts { allow_500: true }) {
                    if v.app_responses > before && v.partial_tail == 0 && v.app_responses == self.gens[gi].supplied.len() {
                        return Ok(calls);
                    }
                }
            }
            if !answered {
                if let Some(oi) = self.outstanding.iter().position(|o| o.tag == tag) {
                    self.respond(oi, 0);
                    answered = true;
                    continue;
                }
            }
            if calls >= max_polls {
                return Err(format!("{} polling calls were not enough (request yielded: {})", calls, answered));
            }
            match self.poll() {
                PollOut::Idle => return Err(format!("the epoll descriptor is not readable although the witness request {} is {} (after {} calls)", tag, if answered { "answered but not delivered" } else { "sent but not yielded" }, calls)),
                PollOut::Yielded(_) => calls += 1,
                PollOut::Err(e) => return Err(e),
                PollOut::Panic(p) => return Err(p),
                PollOut::Shutdown => return Err("shutdown reported".into()),
            }
        }
    }

    pub fn flush(&mut self) {
        self.step += 1;
        micro_http::verif::arm(4096);
        let r = guarded(|| self.server.flush_outgoing_writes());
        micro_http::verif::disarm();
        if let Err(p) = r {
            self.api_errors.push((self.step, format!("flush_outgoing_writes() panicked: {}", p)));
        }
    }

    pub fn set_limit(&mut self, l: usize) {
        self.step += 1;
        self.limit = l;
        self.limit_changed = true;
        self.server.set_payload_max_size(l);
    }

    /// Hands the (already started, possibly busy) server a kill switch now, if it has none yet.
    pub fn attach_kill_switch(&mut self) -> Result<(), String> {
        if self.kill.is_some() {
            return Ok(());
        }
        let k = EventFd::new(libc::EFD_NONBLOCK).map_err(|e| e.to_string())?;
        let k2 = k.try_clone().map_err(|e| e.to_string())?;
        self.kill_fd = k.as_raw_fd();
        self.server.add_kill_switch(k).map_err(|e| format!("add_kill_switch: {:?}", e))?;
        self.kill = Some(k2);
        Ok(())
    }

    /// Hands the server a clone of an event descriptor the application also gives to other servers.
    pub fn attach_shared_kill_switch(&mut self, shared: &EventFd) -> Result<(), String> {
        let k = shared.try_clone().map_err(|e| e.to_string())?;
        let k2 = shared.try_clone().map_err(|e| e.to_string())?;
        self.kill_fd = k.as_raw_fd();
        self.server.add_kill_switch(k).map_err(|e| format!("add_kill_switch: {:?}", e))?;
        self.kill = Some(k2);
        Ok(())
    }

    /// The application replaces the kill switch: a second `add_kill_switch` with a new event descriptor (the
    /// harness's handle on the old one is closed first, so that the old description really goes away when the
    /// server drops it). From then on the new one is the one that is signalled.
    pub fn replace_kill_switch(&mut self) -> Result<(), String> {
        self.kill = None;
        let k = EventFd::new(libc::EFD_NONBLOCK).map_err(|e| e.to_string())?;
        let k2 = k.try_clone().map_err(|e| e.to_string())?;
        self.kill_fd = k.as_raw_fd();
        self.server.add_kill_switch(k).map_err(|e| format!("add_kill_switch (second call): {:?}", e))?;
        self.kill = Some(k2);
        Ok(())
    }

    pub fn signal_kill(&mut self) {
        self.step += 1;
        if let Some(k) = &self.kill {
            let _ = k.write(1);
        }
    }

    /// Connected (non-listening) sockets of the process that are not client ends: the server's
    /// accepted connections, each attributed to a client generation through getpeername().
    pub fn server_side_sockets(&self) -> Vec<(i32, Option<usize>)> {
        let mine: BTreeSet<i32> = self.gens.iter().filter_map(|g| g.stream.as_ref().map(|s| s.as_raw_fd())).collect();
        let prefix = format!("mhvc-{}-{}-", std::process::id(), self.uniq);
        open_fds(self.fd_scan_limit)
            .into_iter()
            .filter(|fd| !mine.contains(fd) && !self.baseline.contains(fd) && *fd != self.epfd && *fd != self.kill_fd && is_socket(*fd) && !is_listening(*fd))
            .map(|fd| {
                let ino = inode_of(fd);
                let gi = peer_name(fd).and_then(|n| {
                    let t = String::from_utf8_lossy(&n).to_string();
                    let rest = t.strip_prefix(&prefix)?.to_string();
                    let mut it = rest.split('-');
                    let c: usize = it.next()?.parse().ok()?;
                    let g: usize = it.next()?.parse().ok()?;
                    self.gens.iter().position(|x| x.client == c && x.gen == g)
                });
                let mut owners = self.sock_owner.borrow_mut();
                match gi {
                    Some(g) => {
                        owners.insert(fd, (g, ino));
                        (fd, Some(g))
                    }
                    // the peer is gone (getpeername fails): use what was seen while it was alive,
                    // provided the descriptor still refers to the same socket
                    None => match owners.get(&fd) {
                        Some((g, i)) if *i == ino => (fd, Some(*g)),
                        _ => (fd, None),
                    },
                }
            })
            .collect()
    }

    /// Entries registered in the server's epoll set other than listener and kill switch.
    pub fn epoll_entries(&self) -> Vec<(i32, u32)> {
        epoll_interest(self.epfd).into_iter().filter(|(fd, _)| *fd != self.kill_fd && !is_listening(*fd)).collect()
    }

    /// Updates what is observable about admissions: a generation whose peer socket exists on the
    /// server side has been accepted; one that can read the 503 text (or EOF without ever having
    /// had a server-side socket) has been refused.
    pub fn observe_admissions(&mut self) -> Vec<(i32, Option<usize>)> {
        let socks = self.server_side_sockets();
        for (_, gi) in &socks {
            if let Some(gi) = gi {
                if self.gens[*gi].admission == Admission::Pending {
                    self.gens[*gi].admission = Admission::Accepted;
                    self.gens[*gi].limit_at_accept = self.limit;
                    self.gens[*gi].decided_poll = Some(self.polls);
                    self.gens[*gi].decided_entries = self.entries_before_poll;
                }
                self.gens[*gi].had_server_socket = true;
            }
        }
        for gi in 0..self.gens.len() {
            if self.gens[gi].admission != Admission::Pending || self.gens[gi].stream.is_none() {
                continue;
            }
            if self.has_unread(gi) {
                let fd = self.gens[gi].stream.as_ref().unwrap().as_raw_fd();
                let mut buf = [0u8; 16];
                // SAFETY: MSG_PEEK into a local buffer.
                let n = unsafe { libc::recv(fd, buf.as_mut_ptr() as *mut libc::c_void, buf.len(), libc::MSG_PEEK | libc::MSG_DONTWAIT) };
                if n == 0 || (n >= 12 && &buf[..12] == b"HTTP/1.1 503") {
                    self.gens[gi].admission = Admission::Refused;
                    self.gens[gi].decided_poll = Some(self.polls);
                    self.gens[gi].decided_entries = self.entries_before_poll;
                }
            }
        }
        socks
    }

    /// Does the application still owe answers for requests yielded from this generation?
    pub fn owed(&self, g: &GenRec) -> bool {
        g.yielded.len() > g.supplied.len()
    }

    /// Poll while ready (bounded), draining clients in between. Returns the number of calls made.
    pub fn settle(&mut self, max_polls: usize, answer: Option<usize>) -> (usize, bool) {
        let mut calls = 0;
        let mut quiet_rounds = 0;
        while calls < max_polls {
            if let Some(size) = answer {
                while !self.outstanding.is_empty() {
                    self.respond(0, size);
                }
            }
            let drained = self.drain_all();
            match self.poll() {
                PollOut::Idle => {
                    if drained == 0 {
                        quiet_rounds += 1;
                        if quiet_rounds >= 2 {
                            return (calls, true);
                        }
                    } else {
                        quiet_rounds = 0;
                    }
                }
                PollOut::Shutdown | PollOut::Panic(_) => return (calls, false),
                _ => {
                    calls += 1;
                    quiet_rounds = 0;
                }
            }
        }
        (calls, false)
    }
}

// ------------------------------------------------------------------ M6: judging what a client received

#[derive(Debug, Default)]
pub struct ClientVerdict {
    pub app_responses: usize,
    pub continues: usize,
    pub bad_requests: usize,
    pub internal_errors: usize,
    pub refused_503: bool,
    pub partial_tail: usize,
}

/// Whether the version of interim responses is judged (C13 only: the other properties that share
/// this judge say nothing about it).
pub static JUDGE_INTERIM_VERSION: std::sync::atomic::AtomicBool = std::sync::atomic::AtomicBool::new(false);

pub struct JudgeOpts {
    /// 500 responses are tolerated (C07/C09) or unexpected (C08)
    pub allow_500: bool,
}

/// Judges everything generation `g` has received. Returns Err((kind, detail)) on the first fault.
pub fn judge_client(g: &GenRec, opts: &JudgeOpts) -> Result<ClientVerdict, (String, String)> {
    let mut v = ClientVerdict::default();
    let b = &g.recv;
    if g.admission == Admission::Refused || (b.len() >= 12 && &b[..12] == b"HTTP/1.1 503") {
        // the whole content of a refused connection is the fixed message
        if b.len() > FULL_503.len() || b[..] != FULL_503[..b.len()] {
            return Err(("bad-503".into(), format!("refused client c{}g{} received {:?}", g.client, g.gen, crate::util::show(b))));
        }
        v.refused_503 = true;
        return Ok(v);
    }
    // what this client's own input allows
    let m = m1(&g.sent, g.limit_at_accept);
    let has_parse_error = m.events.iter().any(|e| matches!(e, M1Event::Error { .. })) || m.dont_care;
    // After a parse error the connection restarts at a point the properties leave open (the rest of the
    // erroring read may be dropped), so the reference grammar cannot be continued exactly; an upper bound
    // is then the number of `100-continue` expectations the client wrote at all.
    let allowed_100 = if has_parse_error {
        g.sent.windows(12).filter(|w| w.eq_ignore_ascii_case(b"100-continue")).count()
    } else {
        m.events.iter().filter(|e| matches!(e, M1Event::Continue100 { .. })).count()
    };
    let mut p = 0usize;
    let mut next_supplied = 0usize;
    let mut seen_tags: Vec<String> = Vec::new();
    while p < b.len() {
        let r: RespView = match read_response(&b[p..]) {
            RespParse::Complete(r) => r,
            RespParse::Partial => {
                v.partial_tail = b.len() - p;
                // a response that was cut short is the last thing a client receives; what there is of its body
                // still belongs to it (tag, bar, padding), nothing else may follow inside it
                let tail = &b[p..];
                if let Some(he) = tail.windows(4).position(|w| w == b"\r\n\r\n") {
                    if tail.starts_with(b"HTTP/1.1 200 ") || tail.starts_with(b"HTTP/1.0 200 ") {
                        let body = &tail[he + 4..];
                        let (tagpart, padding) = match body.iter().position(|c| *c == b'|') {
                            Some(bar) => (&body[..bar], &body[bar + 1..]),
                            None => (body, &body[body.len()..]),
                        };
                        let prefix = g.tag_prefix();
                        let tag_ok = if tagpart.len() >= prefix.len() { tagpart.starts_with(prefix.as_bytes()) && tagpart[prefix.len()..].iter().all(|c| c.is_ascii_digit()) } else { prefix.as_bytes().starts_with(tagpart) };
                        if !tag_ok || !padding.iter().all(|c| *c == b'r') {
                            let off = padding.iter().position(|c| *c != b'r').map(|i| b.len() - padding.len() + i).unwrap_or(p + he + 4);
                            return Err((
                                "malformed-bytes".into(),
                                format!("c{}g{}: inside a response that was cut short (it starts at offset {}) the client received bytes that are not part of it, from offset {}: {:?}", g.client, g.gen, p, off, crate::util::show(&b[off..b.len().min(off + 80)])),
                            ));
                        }
                    }
                }
                break;
            }
            RespParse::Malformed(e) => {
                return Err(("malformed-bytes".into(), format!("c{}g{} received bytes that are not a well-formed response ({}) at offset {}: {:?}", g.client, g.gen, e, p, crate::util::show(&b[p..]))));
            }
        };
        p += r.len;
        match r.code {
            100 => {
                v.continues += 1;
                if !has_parse_error && JUDGE_INTERIM_VERSION.load(std::sync::atomic::Ordering::Relaxed) {
                    // the k-th interim response answers the k-th request that asks for one: same version
                    let want = m.events.iter().filter_map(|e| if let M1Event::Continue100 { version, .. } = e { Some(*version) } else { None }).nth(v.continues - 1);
                    if let Some(w) = want {
                        if w != r.version {
                            return Err(("interim-response-version".into(), format!("c{}g{}: interim response #{} carries HTTP/1.{}, the request that asked for it is HTTP/1.{}", g.client, g.gen, v.continues, r.version, w)));
                        }
                    }
                }
                if v.continues > allowed_100 {
                    return Err(("unexplained-100".into(), format!("c{}g{} received {} interim responses, its input justifies {}", g.client, g.gen, v.continues, allowed_100)));
                }
            }
            400 => {
                v.bad_requests += 1;
                if !has_parse_error {
                    return Err(("unexplained-400".into(), format!("c{}g{} received a 400 but its input {:?} is well-formed", g.client, g.gen, crate::util::show(&g.sent))));
                }
            }
            500 => {
                v.internal_errors += 1;
                if !opts.allow_500 {
                    return Err(("unexplained-500".into(), format!("c{}g{} received a 500: {:?}", g.client, g.gen, String::from_utf8_lossy(&r.body))));
                }
            }
            200 => {
                // application response: body = "<tag>|padding"
                let body = &r.body;
                let bar = body.iter().position(|c| *c == b'|').unwrap_or(body.len());
                let tag = String::from_utf8_lossy(&body[..bar]).to_string();
                if !tag.starts_with(&g.tag_prefix()) {
                    return Err(("foreign-response".into(), format!("c{}g{} received the response for {:?}, which is not one of its requests", g.client, g.gen, tag)));
                }
                if seen_tags.contains(&tag) {
                    return Err(("duplicate-response".into(), format!("c{}g{} received the response for {:?} twice", g.client, g.gen, tag)));
                }
                // must be supplied, and in supplied order
                match g.supplied[next_supplied.min(g.supplied.len())..].iter().position(|(t, _)| *t == tag) {
                    None => {
                        let kind = if g.supplied.iter().any(|(t, _)| *t == tag) { "out-of-order-response" } else { "response-never-supplied" };
                        return Err((kind.into(), format!("c{}g{} received the response for {:?}; supplied order {:?}", g.client, g.gen, tag, g.supplied)));
                    }
                    Some(off) => {
                        let idx = next_supplied + off;
                        if body.len() != g.supplied[idx].1 {
                            return Err(("response-truncated".into(), format!("response for {:?} has {} body bytes, {} were supplied", tag, body.len(), g.supplied[idx].1)));
                        }
                        next_supplied = idx + 1;
                    }
                }
                // the application answers with the version of the request it was handed
                if r.version != tag_version(&tag) {
                    return Err(("yielded-version".into(), format!("c{}g{}: the response for {:?} carries HTTP/1.{}, i.e. the request was yielded with that version; it was sent as HTTP/1.{}", g.client, g.gen, tag, r.version, tag_version(&tag))));
                }
                seen_tags.push(tag);
                v.app_responses += 1;
            }
            other => {
                return Err(("unexpected-status".into(), format!("c{}g{} received status {}", g.client, g.gen, other)));
            }
        }
    }
    Ok(v)
}

impl Drop for Sim {
    fn drop(&mut self) {
        if let Some(p) = &self.sock_path {
            let _ = std::fs::remove_file(p);
        }
    }
}
