//! server-history simulator (filled in later)
