//! Generators: request grammar, header pools, bodies, corruptions, segmentations.
use crate::util::Rng;

#[derive(Clone, Debug, Default)]
pub struct ReqSpec {
    pub method: Vec<u8>,
    pub uri: Vec<u8>,
    pub version: Vec<u8>,
    /// raw header lines without CRLF
    pub headers: Vec<Vec<u8>>,
    pub body: Vec<u8>,
    /// corruption support: the whole request line verbatim (without terminator)
    pub raw_line: Option<Vec<u8>>,
    /// corruption support: request line terminated by a bare LF
    pub bare_lf: bool,
}

/// Offsets (relative to the stream the request was rendered into).
#[derive(Clone, Debug, Default)]
pub struct Layout {
    pub start: usize,
    /// offset just after the CRLF of the request line
    pub reqline_end: usize,
    /// offsets just after the CRLF of each header line
    pub header_ends: Vec<usize>,
    /// offset just after the blank line
    pub hdr_end: usize,
    /// offset just after the body
    pub end: usize,
}

impl Layout {
    /// Structurally interesting positions (CR, LF, boundaries).
    pub fn interesting(&self) -> Vec<usize> {
        let mut v = vec![self.start, self.reqline_end - 2, self.reqline_end - 1, self.reqline_end];
        for h in &self.header_ends {
            v.extend_from_slice(&[h - 2, h - 1, *h]);
        }
        v.extend_from_slice(&[self.hdr_end - 2, self.hdr_end - 1, self.hdr_end, self.end]);
        if self.end > self.hdr_end {
            v.push(self.hdr_end + 1);
            v.push(self.end - 1);
        }
        v
    }
}

impl ReqSpec {
    pub fn render_into(&self, out: &mut Vec<u8>) -> Layout {
        let mut l = Layout { start: out.len(), ..Default::default() };
        out.extend_from_slice(&self.method);
        out.push(b' ');
        out.extend_from_slice(&self.uri);
        out.push(b' ');
        out.extend_from_slice(&self.version);
        out.extend_from_slice(b"\r\n");
        l.reqline_end = out.len();
        for h in &self.headers {
            out.extend_from_slice(h);
            out.extend_from_slice(b"\r\n");
            l.header_ends.push(out.len());
        }
        out.extend_from_slice(b"\r\n");
        l.hdr_end = out.len();
        out.extend_from_slice(&self.body);
        l.end = out.len();
        l
    }
    pub fn render(&self) -> Vec<u8> {
        let mut v = Vec::new();
        self.render_into(&mut v);
        v
    }
    /// Length of the rendered head (request line + headers + blank line).
    pub fn head_len(&self) -> usize {
        self.method.len() + self.uri.len() + self.version.len() + 4 + self.headers.iter().map(|h| h.len() + 2).sum::<usize>() + 2
    }
}

pub const METHODS: [&[u8]; 3] = [b"GET", b"PUT", b"PATCH"];
pub const VERSIONS: [&[u8]; 2] = [b"HTTP/1.0", b"HTTP/1.1"];

pub const URI_POOL: [&str; 12] = [
    "/",
    "/a",
    "/machine-config",
    "/drives/root?x=1&y=2",
    "http://localhost/home",
    "http://h:8080/a/b",
    "*",
    "a",
    "/caf\u{e9}/\u{2003}x",
    "/%41%00",
    "http://",
    "/a:b",
];

/// Header lines that are accepted and change nothing the tag check depends on.
pub const BENIGN_HEADERS: [&str; 29] = [
    "Content-Type: application/json",
    "Content-Type: text/plain",
    "content-type:application/json",
    "Content-Type: application/xml",
    "Accept: application/json",
    "Accept: text/plain",
    "ACCEPT:   application/json  ",
    "Accept: */*",
    "Transfer-Encoding: chunked",
    "Transfer-Encoding: identity",
    "Transfer-Encoding: gzip",
    "Expect: 103-checkpoint",
    "Server: me",
    "Accept-Encoding: gzip, deflate",
    "Accept-Encoding: identity",
    "Accept-Encoding: *;q=0, identity",
    "X-Custom: value",
    "x-custom:other",
    "Host: localhost",
    "User-Agent: curl/7.0 (x; y)",
    "X-Empty:",
    "Weird Name : v: w",
    // valid UTF-8 beyond ASCII is acceptable in custom names and values
    "X-Owner: Zo\u{eb}",
    "X-\u{dc}n\u{ef}: caf\u{e9} \u{20ac}5",
    "X-Emoji: \u{1F600}",
    "X-Custom: na\u{ef}ve",
    // connection options mean nothing to this parser: requests that follow are requests
    "Connection: close",
    "connection: Keep-Alive, Close",
    "Connection: keep-alive",
];

pub fn pad_header(len: usize, tag: usize) -> Vec<u8> {
    // "X-P<tag>: aaaa" of exactly `len` bytes (len >= 8)
    let mut h = format!("X-P{}: ", tag % 10).into_bytes();
    while h.len() < len {
        h.push(b'a' + (h.len() % 23) as u8);
    }
    h.truncate(len.max(7));
    h
}

/// Body bytes that encode (request, offset) and contain CR, LF, CRLFCRLF and request-like text.
pub fn body_bytes(req_idx: usize, n: usize, rng: &mut Rng) -> Vec<u8> {
    let style = rng.below(4);
    let mut b = Vec::with_capacity(n);
    let snippets: [&[u8]; 6] = [
        b"\r\n\r\n",
        b"\r\n",
        b"GET /evil HTTP/1.1\r\n\r\n",
        b"Content-Length: 5\r\n",
        b"\r",
        b"\n",
    ];
    while b.len() < n {
        match style {
            0 => b.push(b'A' + ((req_idx * 7 + b.len()) % 26) as u8),
            1 => {
                if rng.chance(1, 8) {
                    b.extend_from_slice(snippets[rng.below(snippets.len())]);
                } else {
                    b.push(b'a' + ((req_idx + b.len()) % 26) as u8);
                }
            }
            2 => b.push(rng.next() as u8),
            _ => {
                let s = format!("[{}:{}]", req_idx, b.len());
                b.extend_from_slice(s.as_bytes());
            }
        }
    }
    b.truncate(n);
    b
}

pub struct GenOpts {
    pub max_headers: usize,
    pub allow_expect: bool,
    pub limit: usize,
    /// candidate body lengths
    pub body_lens: Vec<usize>,
}

impl Default for GenOpts {
    fn default() -> Self {
        GenOpts { max_headers: 5, allow_expect: true, limit: 51200, body_lens: vec![0, 0, 1, 2, 5, 17, 100, 1022, 1023, 1024, 1025, 1500, 2047, 2048, 2049, 3000] }
    }
}

pub fn content_length_line(n: usize, rng: &mut Rng) -> Vec<u8> {
    match rng.below(9) {
        // whitespace around the NAME is ignored as well as around the value
        6 => format!("Content-Length : {}", n).into_bytes(),
        7 => format!(" Content-Length: {}", n).into_bytes(),
        8 => format!("\tcontent-LENGTH\t:\t{}", n).into_bytes(),
        0 => format!("content-length:{}", n).into_bytes(),
        1 => format!("CONTENT-LENGTH:   {}  ", n).into_bytes(),
        2 => format!("Content-Length: 00{}", n).into_bytes(),
        3 => format!("Content-Length:\t{}", n).into_bytes(),
        _ => format!("Content-Length: {}", n).into_bytes(),
    }
}

/// A well-formed request (accepted by the grammar of C02) with unique tag in the URI.
pub fn valid_request(rng: &mut Rng, idx: usize, opts: &GenOpts) -> ReqSpec {
    let method = METHODS[rng.below(3)].to_vec();
    let mut uri = URI_POOL[rng.below(URI_POOL.len())].as_bytes().to_vec();
    if rng.chance(1, 2) {
        uri.extend_from_slice(format!("/t{}", idx).as_bytes());
    }
    let version = VERSIONS[rng.below(2)].to_vec();
    let mut headers: Vec<Vec<u8>> = Vec::new();
    let nh = rng.below(opts.max_headers + 1);
    for _ in 0..nh {
        match rng.below(10) {
            0 => headers.push(pad_header(rng.range(8, 300), idx)),
            1 if opts.allow_expect => headers.push(b"Expect: 100-continue".to_vec()),
            _ => headers.push(BENIGN_HEADERS[rng.below(BENIGN_HEADERS.len())].as_bytes().to_vec()),
        }
    }
    let n = *rng.pick(&opts.body_lens);
    let n = n.min(opts.limit);
    let body = body_bytes(idx, n, rng);
    if n > 0 || rng.chance(1, 6) {
        // stale Content-Length first (last occurrence wins)
        if rng.chance(1, 8) {
            let pos = rng.below(headers.len() + 1);
            headers.insert(pos, format!("Content-Length: {}", rng.below(9000)).into_bytes());
            headers.push(content_length_line(n, rng));
        } else {
            let pos = rng.below(headers.len() + 1);
            headers.insert(pos, content_length_line(n, rng));
        }
    }
    ReqSpec { method, uri, version, headers, body, raw_line: None, bare_lf: false }
}

/// A pipelined stream of `k` valid requests and their layouts.
pub fn valid_stream(rng: &mut Rng, k: usize, opts: &GenOpts) -> (Vec<u8>, Vec<Layout>) {
    let mut s = Vec::new();
    let mut ls = Vec::new();
    for i in 0..k {
        let r = valid_request(rng, i, opts);
        ls.push(r.render_into(&mut s));
    }
    (s, ls)
}

// ------------------------------------------------------------------ corruptions

/// Names of the single-point corruptions of C02's quantifier.
pub const CORRUPTIONS: [&str; 32] = [
    "method_lower",
    "method_empty",
    "method_wrong",
    "method_prefix",
    "sp1_missing",
    "sp1_doubled",
    "sp2_missing",
    "sp2_doubled",
    "uri_empty",
    "uri_non_utf8",
    "version_wrong",
    "version_lower",
    "version_suffix",
    "version_empty",
    "reqline_stray_cr",
    "reqline_stray_lf",
    "reqline_bare_lf_end",
    "header_no_colon",
    "header_non_utf8",
    "header_stray_cr",
    "header_bare_lf_end",
    "cl_007",
    "cl_u32max",
    "cl_u32max_plus1",
    "cl_negative",
    "cl_empty",
    "cl_alpha",
    "cl_huge",
    "ae_empty",
    "ae_identity_q0",
    "leading_crlf",
    "crlf_after_body",
];

/// Applies corruption `c` to request `r` (in place). Returns false if not applicable.
pub fn corrupt(r: &mut ReqSpec, c: &str, rng: &mut Rng) -> bool {
    match c {
        "method_lower" => r.method = r.method.to_ascii_lowercase(),
        "method_empty" => r.method.clear(),
        "method_wrong" => r.method = b"POST".to_vec(),
        "method_prefix" => r.method.push(b'X'),
        "sp1_missing" => {
            let mut l = r.method.clone();
            l.extend_from_slice(&r.uri);
            l.push(b' ');
            l.extend_from_slice(&r.version);
            r.raw_line = Some(l);
        }
        "sp1_doubled" => {
            r.uri.insert(0, b' ');
        }
        "sp2_missing" => {
            let mut l = r.method.clone();
            l.push(b' ');
            l.extend_from_slice(&r.uri);
            l.extend_from_slice(&r.version);
            r.raw_line = Some(l);
        }
        "sp2_doubled" => {
            r.version.insert(0, b' ');
        }
        "uri_empty" => r.uri.clear(),
        "uri_non_utf8" => {
            let p = rng.below(r.uri.len() + 1);
            r.uri.insert(p, 0xC3);
            r.uri.insert(p + 1, 0x28);
        }
        "version_wrong" => r.version = b"HTTP/2.0".to_vec(),
        "version_lower" => r.version = r.version.to_ascii_lowercase(),
        "version_suffix" => r.version.push(b'1'),
        "version_empty" => r.version.clear(),
        "reqline_stray_cr" => {
            let p = rng.below(r.uri.len() + 1);
            r.uri.insert(p, b'\r');
        }
        "reqline_stray_lf" => {
            let p = rng.below(r.uri.len() + 1);
            r.uri.insert(p, b'\n');
        }
        "reqline_bare_lf_end" => r.bare_lf = true,
        "header_no_colon" => {
            let p = rng.below(r.headers.len() + 1);
            r.headers.insert(p, b"NoColonHere".to_vec());
        }
        "header_non_utf8" => {
            let p = rng.below(r.headers.len() + 1);
            r.headers.insert(p, vec![b'X', b'-', b'B', b':', b' ', 0xFF, 0xFE, b'z']);
        }
        "header_stray_cr" => {
            let p = rng.below(r.headers.len() + 1);
            r.headers.insert(p, b"X-Cr: a\rb".to_vec());
        }
        "header_bare_lf_end" => {
            let p = rng.below(r.headers.len() + 1);
            r.headers.insert(p, b"X-Lf: a\nX-Next: b".to_vec());
        }
        "cl_007" | "cl_u32max" | "cl_u32max_plus1" | "cl_negative" | "cl_empty" | "cl_alpha" | "cl_huge" => {
            let v = match c {
                "cl_007" => "007",
                "cl_u32max" => "4294967295",
                "cl_u32max_plus1" => "4294967296",
                "cl_negative" => "-1",
                "cl_empty" => "",
                "cl_alpha" => "12a",
                _ => "99999999999999999999999",
            };
            r.headers.retain(|h| !h.to_ascii_lowercase().starts_with(b"content-length"));
            let p = rng.below(r.headers.len() + 1);
            r.headers.insert(p, format!("Content-Length: {}", v).into_bytes());
            if c == "cl_007" {
                r.body = b"sevenby".to_vec();
            } else {
                r.body.clear();
            }
        }
        "ae_empty" => {
            let p = rng.below(r.headers.len() + 1);
            r.headers.insert(p, b"Accept-Encoding:   ".to_vec());
        }
        "ae_identity_q0" => {
            let p = rng.below(r.headers.len() + 1);
            let v: &[u8] = if rng.chance(1, 2) { b"Accept-Encoding: gzip, identity;q=0" } else { b"Accept-Encoding: *;q=0" };
            r.headers.insert(p, v.to_vec());
        }
        "leading_crlf" => {
            // an empty line where the request line is expected
            let mut l = b"\r\n".to_vec();
            match &r.raw_line {
                Some(x) => l.extend_from_slice(x),
                None => {
                    l.extend_from_slice(&r.method);
                    l.push(b' ');
                    l.extend_from_slice(&r.uri);
                    l.push(b' ');
                    l.extend_from_slice(&r.version);
                }
            }
            r.raw_line = Some(l);
        }
        "crlf_after_body" => {
            // a stray CR LF after the declared body (or after a bodiless request): not part of the body,
            // so it sits where the next request line is expected
            r.body.extend_from_slice(b"\r\n");
        }
        _ => return false,
    }
    true
}

/// Renders a possibly corrupted request.
pub fn render_raw(r: &ReqSpec) -> Vec<u8> {
    let mut out = Vec::new();
    if let Some(l) = &r.raw_line {
        out.extend_from_slice(l);
    } else {
        out.extend_from_slice(&r.method);
        out.push(b' ');
        out.extend_from_slice(&r.uri);
        out.push(b' ');
        out.extend_from_slice(&r.version);
    }
    if r.bare_lf {
        out.push(b'\n');
    } else {
        out.extend_from_slice(b"\r\n");
    }
    for h in &r.headers {
        out.extend_from_slice(h);
        out.extend_from_slice(b"\r\n");
    }
    out.extend_from_slice(b"\r\n");
    out.extend_from_slice(&r.body);
    out
}

// ------------------------------------------------------------------ segmentations

/// Random strictly increasing cut positions inside 1..len.
pub fn random_cuts(rng: &mut Rng, len: usize, max_cuts: usize) -> Vec<usize> {
    if len < 2 {
        return Vec::new();
    }
    let k = rng.below(max_cuts + 1);
    let mut v: Vec<usize> = (0..k).map(|_| rng.range(1, len - 1)).collect();
    v.sort_unstable();
    v.dedup();
    v
}

/// Cuts for a constant read size.
pub fn const_cuts(len: usize, size: usize) -> Vec<usize> {
    let mut v = Vec::new();
    let mut p = size;
    while p < len {
        v.push(p);
        p += size;
    }
    v
}

/// Positions near structural elements and window multiples, clipped to 1..len-1, sorted, deduped.
pub fn interesting_positions(len: usize, layouts: &[Layout]) -> Vec<usize> {
    let mut v: Vec<usize> = Vec::new();
    for l in layouts {
        for p in l.interesting() {
            for d in [-2i64, -1, 0, 1, 2] {
                let q = p as i64 + d;
                if q >= 1 && (q as usize) < len {
                    v.push(q as usize);
                }
            }
        }
    }
    let mut m = 1024usize;
    while m < len + 3 {
        for d in [-2i64, -1, 0, 1, 2] {
            let q = m as i64 + d;
            if q >= 1 && (q as usize) < len {
                v.push(q as usize);
            }
        }
        m += 1024;
    }
    v.sort_unstable();
    v.dedup();
    v
}
