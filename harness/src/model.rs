//! Reference models, written from the property statements (not from the code):
//! M2 header rules, M1 whole-stream request grammar, M3 response reader.

pub const LINE_LIMIT: usize = 1024;
pub const DEFAULT_LIMIT: usize = 51200;

/// What the application can see of a delivered request.
#[derive(Clone, Debug, PartialEq, Eq, Hash)]
pub struct ReqView {
    pub method: u8,  // 0 GET 1 PUT 2 PATCH
    pub uri: String, // exact URI text
    pub version: u8, // 0 = 1.0, 1 = 1.1
    pub content_length: u32,
    pub expect: bool,
    pub chunked: bool,
    pub accept: u8, // 0 text/plain 1 application/json
    pub custom: Vec<(String, String)>, // sorted
    pub body: Option<Vec<u8>>,
}

/// Error families the properties distinguish.
#[derive(Clone, Debug, PartialEq, Eq, Hash)]
pub enum EK {
    /// malformed request (request-line shape; also the generic "invalid request")
    InvalidRequest,
    Method,
    Uri,
    Version,
    /// fatal header fault; the string names the sub-kind for evidence only
    Header(&'static str),
    SizeLimit(usize, usize),
    /// kinds that are documented as "cannot happen"
    Internal(&'static str),
}

/// What the model expects as error: some model verdicts admit several kinds.
#[derive(Clone, Debug, PartialEq, Eq)]
pub enum ExpErr {
    Exactly(EK),
    /// any fatal header kind
    AnyHeader(&'static str),
    /// empty Accept-Encoding: header kind or InvalidRequest
    HeaderOrInvalid,
    /// over-long request line: any request-line kind
    AnyRequestLine,
}

impl ExpErr {
    pub fn admits(&self, got: &EK) -> bool {
        match self {
            ExpErr::Exactly(e) => e == got,
            ExpErr::AnyHeader(_) => matches!(got, EK::Header(_)),
            ExpErr::HeaderOrInvalid => matches!(got, EK::Header(_) | EK::InvalidRequest),
            ExpErr::AnyRequestLine => {
                matches!(got, EK::InvalidRequest | EK::Method | EK::Uri | EK::Version)
            }
        }
    }
    pub fn name(&self) -> String {
        match self {
            ExpErr::Exactly(e) => format!("{:?}", e),
            ExpErr::AnyHeader(s) => format!("Header({})", s),
            ExpErr::HeaderOrInvalid => "Header|InvalidRequest(empty Accept-Encoding)".into(),
            ExpErr::AnyRequestLine => "RequestLineTooLong".into(),
        }
    }
}

// ------------------------------------------------------------------ M2: header rules

#[derive(Clone, Debug, PartialEq, Eq)]
pub struct HdrState {
    pub content_length: u32,
    pub expect: bool,
    pub chunked: bool,
    pub accept: u8,
    pub custom: Vec<(String, String)>, // insertion-ordered map, last value wins
}

impl Default for HdrState {
    fn default() -> Self {
        HdrState {
            content_length: 0,
            expect: false,
            chunked: false,
            accept: 0,
            custom: Vec::new(),
        }
    }
}

impl HdrState {
    pub fn sorted_custom(&self) -> Vec<(String, String)> {
        let mut c = self.custom.clone();
        c.sort();
        c
    }
}

#[derive(Clone, Debug, PartialEq, Eq)]
pub enum LineVerdict {
    Ok,
    /// unsupported value of a recognised header: tolerated, nothing changes
    Ignored,
    Fatal(ExpErr),
}

fn media(v: &str) -> Option<u8> {
    match v {
        "text/plain" => Some(0),
        "application/json" => Some(1),
        _ => None,
    }
}

/// Is `v` an unsigned 32-bit decimal? `+N` is a don't-care and reported as None.
pub fn parse_u32_decimal(v: &str) -> Option<Option<u32>> {
    if v.is_empty() {
        return Some(None);
    }
    if v.starts_with('+') {
        return None; // don't-care
    }
    if !v.bytes().all(|b| b.is_ascii_digit()) {
        return Some(None);
    }
    let mut acc: u64 = 0;
    for b in v.bytes() {
        acc = acc * 10 + (b - b'0') as u64;
        if acc > u32::MAX as u64 {
            return Some(None);
        }
    }
    Some(Some(acc as u32))
}

/// Accept-Encoding rule of C15. Ok(()) or the fatal verdict.
pub fn accept_encoding_verdict(v: &str) -> Result<(), ExpErr> {
    if v.is_empty() {
        return Err(ExpErr::HeaderOrInvalid);
    }
    let mentions_identity = v.contains("identity");
    for item in v.split(',') {
        let t = item.trim();
        if t == "identity;q=0" {
            return Err(ExpErr::AnyHeader("InvalidValue"));
        }
        if t == "*;q=0" && !mentions_identity {
            return Err(ExpErr::AnyHeader("InvalidValue"));
        }
    }
    Ok(())
}

/// Applies one header line (without CRLF) to `st`. `None` = don't-care input.
pub fn header_line(st: &mut HdrState, line: &[u8]) -> Option<LineVerdict> {
    let text = match std::str::from_utf8(line) {
        Ok(t) => t,
        Err(_) => return Some(LineVerdict::Fatal(ExpErr::AnyHeader("InvalidUtf8String"))),
    };
    let colon = match text.find(':') {
        Some(c) => c,
        None => return Some(LineVerdict::Fatal(ExpErr::AnyHeader("InvalidFormat"))),
    };
    let name = text[..colon].trim();
    let value = text[colon + 1..].trim();
    let lname = name.to_ascii_lowercase();
    match lname.as_str() {
        "content-length" => match parse_u32_decimal(value) {
            None => None,
            Some(Some(n)) => {
                st.content_length = n;
                Some(LineVerdict::Ok)
            }
            Some(None) => Some(LineVerdict::Fatal(ExpErr::AnyHeader("InvalidValue"))),
        },
        "content-type" => Some(if media(value).is_some() {
            LineVerdict::Ok
        } else {
            LineVerdict::Ignored
        }),
        "accept" => Some(match media(value) {
            Some(m) => {
                st.accept = m;
                LineVerdict::Ok
            }
            None => LineVerdict::Ignored,
        }),
        "transfer-encoding" => Some(match value {
            "chunked" => {
                st.chunked = true;
                LineVerdict::Ok
            }
            "identity" => LineVerdict::Ok,
            _ => LineVerdict::Ignored,
        }),
        "expect" => Some(match value {
            "100-continue" => {
                st.expect = true;
                LineVerdict::Ok
            }
            _ => LineVerdict::Ignored,
        }),
        "server" => Some(LineVerdict::Ok),
        "accept-encoding" => Some(match accept_encoding_verdict(value) {
            Ok(()) => LineVerdict::Ok,
            Err(e) => LineVerdict::Fatal(e),
        }),
        _ => {
            let k = name.to_string();
            let v = value.to_string();
            if let Some(e) = st.custom.iter_mut().find(|(kk, _)| *kk == k) {
                e.1 = v;
            } else {
                st.custom.push((k, v));
            }
            Some(LineVerdict::Ok)
        }
    }
}

// ------------------------------------------------------------------ M1: stream grammar

#[derive(Clone, Debug, PartialEq, Eq)]
pub enum M1Event {
    /// request delivered; `at` = number of stream bytes needed to determine it
    Deliver { req: ReqView, at: usize, hdr_end: usize },
    /// interim 100 queued for a request with this version; `at` = end of its header block
    Continue100 { version: u8, at: usize },
    Error { err: ExpErr, at: usize },
}

#[derive(Clone, Debug, PartialEq, Eq)]
pub struct M1Out {
    pub events: Vec<M1Event>,
    /// true when the stream ends inside a request (or exactly between requests) without error
    pub incomplete_tail: bool,
    /// the model met an input whose treatment the properties leave open
    pub dont_care: bool,
    /// offset where the unfinished element starts (== stream len when none)
    pub tail_start: usize,
}

fn find_crlf(b: &[u8]) -> Option<usize> {
    if b.len() < 2 {
        return None;
    }
    (0..b.len() - 1).find(|&i| b[i] == b'\r' && b[i + 1] == b'\n')
}

enum Line<'a> {
    Complete(&'a [u8], usize), // content, offset just after CRLF
    TooLong(usize),            // offset at which it is known to be too long
    Partial,
}

/// A line starting at `p`: complete iff CRLF lies entirely within its first 1024 bytes.
fn next_line(s: &[u8], p: usize) -> Line<'_> {
    let window_end = (p + LINE_LIMIT).min(s.len());
    match find_crlf(&s[p..window_end]) {
        Some(i) => Line::Complete(&s[p..p + i], p + i + 2),
        None => {
            if s.len() - p >= LINE_LIMIT {
                Line::TooLong(p + LINE_LIMIT)
            } else {
                Line::Partial
            }
        }
    }
}

pub fn method_of(b: &[u8]) -> Option<u8> {
    match b {
        b"GET" => Some(0),
        b"PUT" => Some(1),
        b"PATCH" => Some(2),
        _ => None,
    }
}
pub fn version_of(b: &[u8]) -> Option<u8> {
    match b {
        b"HTTP/1.0" => Some(0),
        b"HTTP/1.1" => Some(1),
        _ => None,
    }
}

/// Request line per C02: METHOD SP URI SP VERSION; faults in the order shape, method, URI, version.
pub fn request_line(line: &[u8]) -> Result<(u8, String, u8), EK> {
    let sp1 = line.iter().position(|&c| c == b' ').ok_or(EK::InvalidRequest)?;
    let rest = &line[sp1 + 1..];
    let sp2 = rest.iter().position(|&c| c == b' ').ok_or(EK::InvalidRequest)?;
    let m = &line[..sp1];
    let u = &rest[..sp2];
    let v = &rest[sp2 + 1..];
    let method = method_of(m).ok_or(EK::Method)?;
    if u.is_empty() {
        return Err(EK::Uri);
    }
    let uri = std::str::from_utf8(u).map_err(|_| EK::Uri)?.to_string();
    let version = version_of(v).ok_or(EK::Version)?;
    Ok((method, uri, version))
}

/// Whole-stream reference parser for a connection with payload limit `limit`.
pub fn m1(s: &[u8], limit: usize) -> M1Out {
    let mut out = M1Out {
        events: Vec::new(),
        incomplete_tail: false,
        dont_care: false,
        tail_start: s.len(),
    };
    let mut p = 0usize;
    loop {
        let req_start = p;
        if p == s.len() {
            out.incomplete_tail = true;
            out.tail_start = p;
            return out;
        }
        // request line
        let (method, uri, version) = match next_line(s, p) {
            Line::Partial => {
                out.incomplete_tail = true;
                out.tail_start = req_start;
                return out;
            }
            Line::TooLong(at) => {
                out.events.push(M1Event::Error { err: ExpErr::AnyRequestLine, at });
                return out;
            }
            Line::Complete(line, next) => match request_line(line) {
                Ok(t) => {
                    p = next;
                    t
                }
                Err(e) => {
                    out.events.push(M1Event::Error { err: ExpErr::Exactly(e), at: next });
                    return out;
                }
            },
        };
        // headers
        let mut hs = HdrState::default();
        loop {
            match next_line(s, p) {
                Line::Partial => {
                    out.incomplete_tail = true;
                    out.tail_start = req_start;
                    return out;
                }
                Line::TooLong(at) => {
                    out.events.push(M1Event::Error { err: ExpErr::AnyHeader("SizeLimitExceeded"), at });
                    return out;
                }
                Line::Complete(line, next) => {
                    p = next;
                    if line.is_empty() {
                        break;
                    }
                    match header_line(&mut hs, line) {
                        None => {
                            out.dont_care = true;
                            return out;
                        }
                        Some(LineVerdict::Fatal(e)) => {
                            out.events.push(M1Event::Error { err: e, at: next });
                            return out;
                        }
                        Some(_) => {}
                    }
                }
            }
        }
        let hdr_end = p;
        let n = hs.content_length as usize;
        let mut view = ReqView {
            method,
            uri,
            version,
            content_length: hs.content_length,
            expect: hs.expect,
            chunked: hs.chunked,
            accept: hs.accept,
            custom: hs.sorted_custom(),
            body: None,
        };
        if n == 0 {
            out.events.push(M1Event::Deliver { req: view, at: hdr_end, hdr_end });
            continue;
        }
        if n > limit {
            out.events.push(M1Event::Error {
                err: ExpErr::Exactly(EK::SizeLimit(limit, n)),
                at: hdr_end,
            });
            return out;
        }
        if hs.expect {
            out.events.push(M1Event::Continue100 { version, at: hdr_end });
        }
        if s.len() - p < n {
            out.incomplete_tail = true;
            out.tail_start = req_start;
            return out;
        }
        view.body = Some(s[p..p + n].to_vec());
        p += n;
        out.events.push(M1Event::Deliver { req: view, at: p, hdr_end });
    }
}

// ------------------------------------------------------------------ M3: response reader

#[derive(Clone, Debug, PartialEq, Eq)]
pub struct RespView {
    pub version: u8,
    pub code: u16,
    pub headers: Vec<(String, String)>, // in order, name and value verbatim (value after ": ")
    pub content_length: Option<usize>,
    pub body: Vec<u8>,
    /// byte length of the whole response
    pub len: usize,
}

impl RespView {
    pub fn header(&self, name: &str) -> Option<&str> {
        self.headers.iter().find(|(k, _)| k == name).map(|(_, v)| v.as_str())
    }
}

#[derive(Clone, Debug, PartialEq, Eq)]
pub enum RespParse {
    Complete(RespView),
    /// more bytes needed
    Partial,
    Malformed(String),
}

/// Reads one response from the start of `b`, as an independent HTTP/1.x client would:
/// status line `HTTP/1.x SP ddd SP CRLF`, header lines `Name: value CRLF`, blank line,
/// body of Content-Length bytes (no body when the header is absent).
pub fn read_response(b: &[u8]) -> RespParse {
    let mut p;
    let sl_end = match find_crlf(b) {
        Some(i) => i,
        None => {
            // check that what we have is a plausible prefix of a status line
            let proto = b"HTTP/1.";
            let k = b.len().min(proto.len());
            if b[..k] != proto[..k] {
                return RespParse::Malformed("status line does not start with HTTP/1.".into());
            }
            if b.len() > 64 {
                return RespParse::Malformed("status line too long".into());
            }
            return RespParse::Partial;
        }
    };
    let sl = &b[..sl_end];
    // HTTP/1.x SP ddd SP
    if sl.len() != 13 {
        return RespParse::Malformed(format!("status line length {} != 13", sl.len()));
    }
    let version = match &sl[..8] {
        b"HTTP/1.0" => 0,
        b"HTTP/1.1" => 1,
        _ => return RespParse::Malformed("bad version".into()),
    };
    if sl[8] != b' ' || sl[12] != b' ' || !sl[9..12].iter().all(|c| c.is_ascii_digit()) {
        return RespParse::Malformed("bad status line shape".into());
    }
    let code = (sl[9] - b'0') as u16 * 100 + (sl[10] - b'0') as u16 * 10 + (sl[11] - b'0') as u16;
    p = sl_end + 2;
    let mut headers = Vec::new();
    let mut content_length: Option<usize> = None;
    loop {
        let i = match find_crlf(&b[p..]) {
            Some(i) => i,
            None => {
                if b.len() - p > 4096 {
                    return RespParse::Malformed("header line too long".into());
                }
                return RespParse::Partial;
            }
        };
        let line = &b[p..p + i];
        p += i + 2;
        if line.is_empty() {
            break;
        }
        let text = match std::str::from_utf8(line) {
            Ok(t) => t,
            Err(_) => return RespParse::Malformed("non-UTF-8 header line".into()),
        };
        let c = match text.find(": ") {
            Some(c) => c,
            None => return RespParse::Malformed(format!("header line without ': ': {:?}", text)),
        };
        let (k, v) = (&text[..c], &text[c + 2..]);
        if k.is_empty() || k.contains(' ') {
            return RespParse::Malformed(format!("bad header name {:?}", k));
        }
        if k == "Content-Length" {
            if content_length.is_some() {
                return RespParse::Malformed("duplicate Content-Length".into());
            }
            match v.parse::<usize>() {
                Ok(n) if v.bytes().all(|c| c.is_ascii_digit()) => content_length = Some(n),
                _ => return RespParse::Malformed(format!("bad Content-Length {:?}", v)),
            }
        }
        headers.push((k.to_string(), v.to_string()));
    }
    let n = content_length.unwrap_or(0);
    if b.len() - p < n {
        return RespParse::Partial;
    }
    let body = b[p..p + n].to_vec();
    RespParse::Complete(RespView {
        version,
        code,
        headers,
        content_length,
        body,
        len: p + n,
    })
}

/// Splits a byte stream into responses; returns the complete ones, the unparsed tail, and an
/// error if the stream is not a sequence of well-formed responses.
pub fn read_all_responses(b: &[u8]) -> (Vec<RespView>, usize, Option<String>) {
    let mut out = Vec::new();
    let mut p = 0;
    while p < b.len() {
        match read_response(&b[p..]) {
            RespParse::Complete(r) => {
                p += r.len;
                out.push(r);
            }
            RespParse::Partial => return (out, p, None),
            RespParse::Malformed(m) => return (out, p, Some(m)),
        }
    }
    (out, p, None)
}
