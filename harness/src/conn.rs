//! Driving a real `HttpConnection` over the scripted stream, with panic / step-budget monitors.
use std::cell::RefCell;
use std::panic::{catch_unwind, AssertUnwindSafe};

use micro_http::{
    ConnectionError, HttpConnection, HttpHeaderError, MediaType, Method, Request, RequestError, Version,
};

use crate::model::{ReqView, EK};
use crate::stream::{ReadEv, Script};

thread_local! {
    static LAST_PANIC: RefCell<Option<String>> = RefCell::new(None);
    /// coverage evidence only: (parser state, read-cursor class) seen after try_read calls
    static PROBE_COV: RefCell<[[u64; 5]; 4]> = RefCell::new([[0; 5]; 4]);
}

fn cursor_class(c: usize) -> usize {
    match c {
        0 => 0,
        1 => 1,
        2..=1021 => 2,
        1022 => 3,
        _ => 4,
    }
}

/// Dumps and resets the probe coverage table as (name, count) pairs.
pub fn take_probe_cov() -> Vec<(String, u64)> {
    let names = ["reqline", "headers", "body", "ready"];
    let cls = ["cur0", "cur1", "cur2-1021", "cur1022", "cur1023+"];
    let mut out = Vec::new();
    PROBE_COV.with(|c| {
        let mut t = c.borrow_mut();
        for (i, row) in t.iter().enumerate() {
            for (j, v) in row.iter().enumerate() {
                if *v > 0 {
                    out.push((format!("probe_{}_{}", names[i], cls[j]), *v));
                }
            }
        }
        *t = [[0; 5]; 4];
    });
    out
}

/// Installs a quiet panic hook that remembers the message and location.
pub fn install_panic_hook() {
    std::panic::set_hook(Box::new(|info| {
        let loc = info
            .location()
            .map(|l| format!("{}:{}", l.file(), l.line()))
            .unwrap_or_default();
        let msg = if let Some(s) = info.payload().downcast_ref::<&str>() {
            s.to_string()
        } else if let Some(s) = info.payload().downcast_ref::<String>() {
            s.clone()
        } else {
            "panic".to_string()
        };
        LAST_PANIC.with(|p| *p.borrow_mut() = Some(format!("{} @ {}", msg, loc)));
    }));
}

pub fn take_panic() -> String {
    LAST_PANIC.with(|p| p.borrow_mut().take()).unwrap_or_else(|| "panic".into())
}

/// Runs `f`, returning Err(message) if it panicked.
pub fn guarded<R>(f: impl FnOnce() -> R) -> Result<R, String> {
    match catch_unwind(AssertUnwindSafe(f)) {
        Ok(r) => Ok(r),
        Err(_) => Err(take_panic()),
    }
}

pub fn method_code(m: Method) -> u8 {
    match m {
        Method::Get => 0,
        Method::Put => 1,
        Method::Patch => 2,
    }
}
pub fn version_code(v: Version) -> u8 {
    match v {
        Version::Http10 => 0,
        Version::Http11 => 1,
    }
}
pub fn media_code(m: MediaType) -> u8 {
    match m {
        MediaType::PlainText => 0,
        MediaType::ApplicationJson => 1,
    }
}

/// The URI text is only visible through Debug (`Uri { string: "..." }`) and get_abs_path.
pub fn uri_text(req: &Request) -> String {
    let d = format!("{:?}", req.uri());
    // Uri { string: "<escaped>" }
    if let (Some(a), Some(b)) = (d.find('"'), d.rfind('"')) {
        if b > a {
            return unescape_debug(&d[a + 1..b]);
        }
    }
    d
}

fn unescape_debug(s: &str) -> String {
    let mut out = String::new();
    let mut it = s.chars().peekable();
    while let Some(c) = it.next() {
        if c != '\\' {
            out.push(c);
            continue;
        }
        match it.next() {
            Some('n') => out.push('\n'),
            Some('r') => out.push('\r'),
            Some('t') => out.push('\t'),
            Some('0') => out.push('\0'),
            Some('\\') => out.push('\\'),
            Some('"') => out.push('"'),
            Some('\'') => out.push('\''),
            Some('u') => {
                // \u{XXXX}
                let mut hexs = String::new();
                if it.peek() == Some(&'{') {
                    it.next();
                    for h in it.by_ref() {
                        if h == '}' {
                            break;
                        }
                        hexs.push(h);
                    }
                }
                if let Some(ch) = u32::from_str_radix(&hexs, 16).ok().and_then(char::from_u32) {
                    out.push(ch);
                }
            }
            Some(o) => {
                out.push('\\');
                out.push(o);
            }
            None => out.push('\\'),
        }
    }
    out
}

pub fn view(req: &Request) -> ReqView {
    let mut custom: Vec<(String, String)> = req
        .headers
        .custom_entries()
        .iter()
        .map(|(k, v)| (k.clone(), v.clone()))
        .collect();
    custom.sort();
    ReqView {
        method: method_code(req.method()),
        uri: uri_text(req),
        version: version_code(req.http_version()),
        content_length: req.headers.content_length(),
        expect: req.headers.expect(),
        chunked: req.headers.chunked(),
        accept: media_code(req.headers.accept()),
        custom,
        body: req.body.as_ref().map(|b| b.raw().to_vec()),
    }
}

pub fn ek(e: &RequestError) -> EK {
    match e {
        RequestError::InvalidRequest => EK::InvalidRequest,
        RequestError::InvalidHttpMethod(_) => EK::Method,
        RequestError::InvalidUri(_) => EK::Uri,
        RequestError::InvalidHttpVersion(_) => EK::Version,
        RequestError::SizeLimitExceeded(l, n) => EK::SizeLimit(*l, *n),
        RequestError::HeaderError(h) => EK::Header(match h {
            HttpHeaderError::InvalidFormat(_) => "InvalidFormat",
            HttpHeaderError::InvalidUtf8String(_) => "InvalidUtf8String",
            HttpHeaderError::InvalidValue(_, _) => "InvalidValue",
            HttpHeaderError::SizeLimitExceeded(_) => "SizeLimitExceeded",
            HttpHeaderError::UnsupportedFeature(_, _) => "UnsupportedFeature",
            HttpHeaderError::UnsupportedName(_) => "UnsupportedName",
            HttpHeaderError::UnsupportedValue(_, _) => "UnsupportedValue",
        }),
        RequestError::Overflow => EK::Internal("Overflow"),
        RequestError::Underflow => EK::Internal("Underflow"),
        RequestError::HeadersWithoutPendingRequest => EK::Internal("HeadersWithoutPendingRequest"),
        RequestError::BodyWithoutPendingRequest => EK::Internal("BodyWithoutPendingRequest"),
    }
}

/// Result of one `try_read` call.
#[derive(Clone, Debug, PartialEq, Eq)]
pub enum RR {
    Ok,
    Parse(EK),
    Closed,
    StreamRead(i32),
    /// variants try_read must never return
    Unexpected(String),
    Panic(String),
}

#[derive(Debug)]
pub struct StepOut {
    pub res: RR,
    pub delivered: Vec<ReqView>,
    /// descriptors attached to each delivered request (raw numbers, taken out of the Files)
    pub files: Vec<Vec<std::fs::File>>,
    pub recv_calls: u64,
    pub ticks: u64,
}

pub struct Runner {
    pub conn: HttpConnection<Script>,
    pub script: Script,
    /// keep the File objects of delivered requests (C12) instead of dropping them
    pub keep_files: bool,
    /// do not pop delivered requests after try_read (the application collects them later with `pop_all`)
    pub defer_pop: bool,
    /// the application takes at most this many requests after each read (0 = all of them)
    pub pop_limit: usize,
}

/// Generous logical step budget for one try_read: the state loop handles at least one
/// byte of a 1024-byte window per iteration, plus a constant.
pub const TRY_READ_BUDGET: u64 = 2 * 1024 + 16;

impl Runner {
    pub fn new(limit: Option<usize>) -> Self {
        let script = Script::new();
        let mut conn = HttpConnection::new(script.clone());
        if let Some(l) = limit {
            conn.set_payload_max_size(l);
        }
        Runner { conn, script, keep_files: false, defer_pop: false, pop_limit: 0 }
    }

    /// One try_read with whatever the script holds next.
    pub fn read(&mut self) -> StepOut {
        let before = self.script.recv_calls();
        micro_http::verif::arm(TRY_READ_BUDGET);
        let r = guarded(|| self.conn.try_read());
        let ticks = micro_http::verif::disarm();
        let recv_calls = self.script.recv_calls() - before;
        let res = match r {
            Err(p) => RR::Panic(p),
            Ok(Ok(())) => RR::Ok,
            Ok(Err(ConnectionError::ParseError(e))) => RR::Parse(ek(&e)),
            Ok(Err(ConnectionError::ConnectionClosed)) => RR::Closed,
            Ok(Err(ConnectionError::StreamReadError(e))) => RR::StreamRead(e.errno()),
            Ok(Err(other)) => RR::Unexpected(format!("{:?}", other)),
        };
        let mut delivered = Vec::new();
        let mut files = Vec::new();
        if !matches!(res, RR::Panic(_)) && self.defer_pop {
            return StepOut { res, delivered, files, recv_calls, ticks };
        }
        if !matches!(res, RR::Panic(_)) {
            let pr = self.conn.verif_probe();
            PROBE_COV.with(|c| c.borrow_mut()[(pr.state as usize).min(3)][cursor_class(pr.read_cursor)] += 1);
            let pop_limit = self.pop_limit;
            let popped = guarded(|| {
                let mut v = Vec::new();
                while let Some(r) = self.conn.pop_parsed_request() {
                    v.push(r);
                    if pop_limit > 0 && v.len() >= pop_limit {
                        break;
                    }
                }
                v
            });
            if let Ok(reqs) = popped {
                for mut r in reqs {
                    delivered.push(view(&r));
                    if self.keep_files {
                        files.push(std::mem::take(&mut r.files));
                    }
                }
            }
        }
        StepOut { res, delivered, files, recv_calls, ticks }
    }

    /// Pops everything the connection has delivered so far (views and, with keep_files, the Files).
    pub fn pop_all(&mut self) -> (Vec<ReqView>, Vec<Vec<std::fs::File>>) {
        let mut views = Vec::new();
        let mut files = Vec::new();
        while let Some(mut r) = self.conn.pop_parsed_request() {
            views.push(view(&r));
            files.push(std::mem::take(&mut r.files));
        }
        (views, files)
    }

    /// An empty read (EAGAIN when `eintr` is false, else EINTR): must return that stream error and
    /// deliver nothing. Returns a description of the misbehaviour otherwise.
    pub fn empty_read(&mut self, eintr: bool) -> Option<String> {
        let (ev, want) = if eintr { (ReadEv::Interrupted, libc::EINTR) } else { (ReadEv::WouldBlock, libc::EAGAIN) };
        let so = self.feed(ev);
        if so.res != RR::StreamRead(want) || !so.delivered.is_empty() {
            return Some(format!("a read that returned no data gave {:?} with {} deliveries", so.res, so.delivered.len()));
        }
        None
    }

    /// Push one read event and perform one try_read.
    pub fn feed(&mut self, ev: ReadEv) -> StepOut {
        self.script.push_read(ev);
        self.read()
    }
}

/// Outcome of feeding a whole stream under one segmentation, stopping at the first parse error.
#[derive(Clone, Debug, PartialEq, Eq)]
pub struct Outcome {
    pub delivered: Vec<ReqView>,
    pub error: Option<EK>,
    /// misbehaviour that is wrong under every property (panic, unexpected variant, >1 recv)
    pub fault: Option<String>,
    /// index (0-based, counting only data reads) of the read at which each request was delivered
    pub deliver_at_bytes: Vec<usize>,
    /// bytes consumed before the read that delivered each request
    pub deliver_prev_bytes: Vec<usize>,
    /// bytes consumed before the read that reported the first error
    pub error_prev_bytes: usize,
    /// bytes consumed from the stream when the first error was reported
    pub error_at_bytes: usize,
    pub reads: usize,
}

#[derive(Clone, Copy, Debug, PartialEq, Eq)]
pub enum Gap {
    None,
    WouldBlock,
    Interrupted,
}

/// Feeds `stream` cut at `cuts` (strictly increasing positions inside the stream). Each segment
/// is offered as one read event; if the connection takes fewer bytes the rest is re-offered.
/// With `gap` an empty read is inserted before every segment after the first.
/// The same stream, but the application takes at most `k` requests after each read and the rest when the
/// stream is over (or the first error is reported). Returns the requests in the order they were handed out.
pub fn run_stream_partial_pop(limit: Option<usize>, stream: &[u8], cuts: &[usize], k: usize) -> (Vec<ReqView>, Option<EK>, Option<String>) {
    let mut r = Runner::new(limit);
    r.pop_limit = k;
    let mut delivered = Vec::new();
    let mut start = 0usize;
    for si in 0..=cuts.len() {
        let end = if si < cuts.len() { cuts[si] } else { stream.len() };
        if end <= start {
            continue;
        }
        r.script.push_read(ReadEv::Data(stream[start..end].to_vec(), Vec::new()));
        start = end;
        while r.script.pending_reads() > 0 {
            let so = r.read();
            delivered.extend(so.delivered);
            match so.res {
                RR::Ok => {}
                RR::Parse(e) => {
                    delivered.extend(r.pop_all().0);
                    return (delivered, Some(e), None);
                }
                other => return (delivered, None, Some(format!("{:?}", other))),
            }
        }
    }
    delivered.extend(r.pop_all().0);
    (delivered, None, None)
}

pub fn run_stream(limit: Option<usize>, stream: &[u8], cuts: &[usize], gap: Gap, eof: bool) -> Outcome {
    let mut r = Runner::new(limit);
    let mut out = Outcome {
        delivered: Vec::new(),
        error: None,
        fault: None,
        deliver_at_bytes: Vec::new(),
        deliver_prev_bytes: Vec::new(),
        error_prev_bytes: 0,
        error_at_bytes: 0,
        reads: 0,
    };
    let mut consumed = 0usize;
    let mut start = 0usize;
    let nseg = cuts.len() + 1;
    for si in 0..nseg {
        let end = if si < cuts.len() { cuts[si] } else { stream.len() };
        if end <= start {
            continue;
        }
        if si > 0 && gap != Gap::None {
            let ev = if gap == Gap::WouldBlock { ReadEv::WouldBlock } else { ReadEv::Interrupted };
            let want = if gap == Gap::WouldBlock { libc::EAGAIN } else { libc::EINTR };
            let so = r.feed(ev);
            if so.res != RR::StreamRead(want) || !so.delivered.is_empty() {
                out.fault = Some(format!("empty read returned {:?} with {} deliveries", so.res, so.delivered.len()));
                return out;
            }
        }
        r.script.push_read(ReadEv::Data(stream[start..end].to_vec(), Vec::new()));
        start = end;
        while r.script.pending_reads() > 0 {
            let pend_before = r.script.pending_read_bytes();
            let so = r.read();
            out.reads += 1;
            let pend_after = r.script.pending_read_bytes();
            let prev_consumed = consumed;
            consumed += pend_before - pend_after;
            if so.recv_calls != 1 {
                out.fault = Some(format!("{} receive calls in one try_read", so.recv_calls));
            }
            for d in so.delivered {
                out.delivered.push(d);
                out.deliver_at_bytes.push(consumed);
                out.deliver_prev_bytes.push(prev_consumed);
            }
            match so.res {
                RR::Ok => {}
                RR::Parse(e) => {
                    out.error = Some(e);
                    out.error_at_bytes = consumed;
                    out.error_prev_bytes = prev_consumed;
                    return out;
                }
                RR::Panic(p) => {
                    out.fault = Some(format!("panic: {}", p));
                    return out;
                }
                other => {
                    out.fault = Some(format!("unexpected try_read result {:?}", other));
                    return out;
                }
            }
            if out.fault.is_some() {
                return out;
            }
        }
    }
    if eof {
        let so = r.feed(ReadEv::Eof(Vec::new()));
        if so.res != RR::Closed || !so.delivered.is_empty() {
            out.fault = Some(format!("EOF read returned {:?} with {} deliveries", so.res, so.delivered.len()));
        }
    }
    out
}
