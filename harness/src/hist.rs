//! Action histories over the simulator: the action alphabet, (de)serialization for replay,
//! execution, and the generic explorers (bounded-exhaustive DFS by re-execution, random).
use std::net::Shutdown;

use crate::sim::{PollOut, ReqKind, Sim};
use crate::util::{Fp, Rng, J};
use crate::Ctx;

#[derive(Clone, Copy, Debug, PartialEq, Eq)]
pub enum Piece {
    /// whole GET
    Get,
    /// whole PUT with a 12-byte body
    Put,
    /// first part of a GET (cut inside the request line or a header)
    Head,
    /// the rest of a started request
    Rest,
    /// two pipelined GETs in one write
    Two,
    /// PUT with Expect: 100-continue, header block only (the body is the Rest)
    Expect,
    /// PUT with a 5000-byte body (several reads on the server side)
    Big,
    /// a malformed request line
    Bad,
    /// bytes that are not HTTP at all
    Garbage,
    /// PUT declaring a body above the payload limit
    Oversize,
    /// a complete GET and the header block of an Expect PUT in one write (the body is the Rest)
    GetExpect,
    /// nine pipelined GETs in one write (long pipelines; large answer batches)
    Many,
    /// a PUT whose head plus body is exactly two or three receive windows (2048 / 3072 bytes), in one write
    Aligned,
}

#[derive(Clone, Copy, Debug, PartialEq, Eq)]
pub enum Size {
    Small,
    Medium,
    Large,
}

impl Size {
    pub fn bytes(self) -> usize {
        match self {
            Size::Small => 0,
            Size::Medium => 5000,
            Size::Large => 1 << 20,
        }
    }
}

#[derive(Clone, Debug, PartialEq, Eq)]
pub enum Act {
    Connect(usize),
    Send(usize, Piece),
    /// read everything available
    Drain(usize),
    /// read at most 100 bytes
    DrainSome(usize),
    Close(usize),
    ShutRd(usize),
    ShutWr(usize),
    Poll,
    /// answer the i-th oldest outstanding request
    Respond(usize, Size),
    /// answer the newest outstanding request
    RespondNewest(Size),
    /// answer everything outstanding, oldest first / newest first
    RespondAll(Size),
    RespondAllRev(Size),
    /// answer everything outstanding with ONE call of `enqueue_responses`; the order of the batch
    /// is the permutation derived from the number (0 = oldest first, 1 = newest first)
    RespondBatch(u64, Size),
    /// application misuse: a second response for the request answered last (a surplus response)
    RespondAgain,
    Flush,
    SetLimit(usize),
    Kill,
    /// witness macro step: request, poll until yielded, answer, poll until delivered
    RoundTrip(usize),
}

fn piece_name(p: Piece) -> &'static str {
    match p {
        Piece::Get => "get",
        Piece::Put => "put",
        Piece::Head => "head",
        Piece::Rest => "rest",
        Piece::Two => "two",
        Piece::Expect => "expect",
        Piece::Big => "big",
        Piece::Bad => "bad",
        Piece::Garbage => "garbage",
        Piece::Oversize => "oversize",
        Piece::GetExpect => "getexpect",
        Piece::Many => "many",
        Piece::Aligned => "aligned",
    }
}
fn parse_piece(s: &str) -> Option<Piece> {
    Some(match s {
        "get" => Piece::Get,
        "put" => Piece::Put,
        "head" => Piece::Head,
        "rest" => Piece::Rest,
        "two" => Piece::Two,
        "expect" => Piece::Expect,
        "big" => Piece::Big,
        "bad" => Piece::Bad,
        "garbage" => Piece::Garbage,
        "oversize" => Piece::Oversize,
        "getexpect" => Piece::GetExpect,
        "many" => Piece::Many,
        "aligned" => Piece::Aligned,
        _ => return None,
    })
}
fn size_name(s: Size) -> &'static str {
    match s {
        Size::Small => "small",
        Size::Medium => "medium",
        Size::Large => "large",
    }
}
fn parse_size(s: &str) -> Option<Size> {
    Some(match s {
        "small" => Size::Small,
        "medium" => Size::Medium,
        "large" => Size::Large,
        _ => return None,
    })
}

impl Act {
    pub fn name(&self) -> String {
        match self {
            Act::Connect(c) => format!("connect:{}", c),
            Act::Send(c, p) => format!("send:{}:{}", c, piece_name(*p)),
            Act::Drain(c) => format!("drain:{}", c),
            Act::DrainSome(c) => format!("drainsome:{}", c),
            Act::Close(c) => format!("close:{}", c),
            Act::ShutRd(c) => format!("shutrd:{}", c),
            Act::ShutWr(c) => format!("shutwr:{}", c),
            Act::Poll => "poll".into(),
            Act::Respond(i, s) => format!("respond:{}:{}", i, size_name(*s)),
            Act::RespondNewest(s) => format!("respondnewest:{}", size_name(*s)),
            Act::RespondAll(s) => format!("respondall:{}", size_name(*s)),
            Act::RespondAllRev(s) => format!("respondallrev:{}", size_name(*s)),
            Act::RespondBatch(k, s) => format!("respondbatch:{}:{}", k, size_name(*s)),
            Act::RespondAgain => "respondagain".into(),
            Act::Flush => "flush".into(),
            Act::SetLimit(l) => format!("setlimit:{}", l),
            Act::Kill => "kill".into(),
            Act::RoundTrip(c) => format!("roundtrip:{}", c),
        }
    }
    pub fn parse(s: &str) -> Option<Act> {
        let parts: Vec<&str> = s.split(':').collect();
        let n = |i: usize| -> Option<usize> { parts.get(i)?.parse().ok() };
        Some(match parts[0] {
            "connect" => Act::Connect(n(1)?),
            "send" => Act::Send(n(1)?, parse_piece(parts.get(2)?)?),
            "drain" => Act::Drain(n(1)?),
            "drainsome" => Act::DrainSome(n(1)?),
            "close" => Act::Close(n(1)?),
            "shutrd" => Act::ShutRd(n(1)?),
            "shutwr" => Act::ShutWr(n(1)?),
            "poll" => Act::Poll,
            "respond" => Act::Respond(n(1)?, parse_size(parts.get(2)?)?),
            "respondnewest" => Act::RespondNewest(parse_size(parts.get(1)?)?),
            "respondall" => Act::RespondAll(parse_size(parts.get(1)?)?),
            "respondallrev" => Act::RespondAllRev(parse_size(parts.get(1)?)?),
            "respondagain" => Act::RespondAgain,
            "respondbatch" => Act::RespondBatch(parts.get(1)?.parse().ok()?, parse_size(parts.get(2)?)?),
            "flush" => Act::Flush,
            "setlimit" => Act::SetLimit(n(1)?),
            "kill" => Act::Kill,
            "roundtrip" => Act::RoundTrip(n(1)?),
            _ => return None,
        })
    }
}

pub fn history_json(acts: &[Act], extra: Vec<(&str, J)>) -> J {
    let mut kv = vec![("engine", J::s("server-simulator")), ("history", J::Arr(acts.iter().map(|a| J::s(&a.name())).collect()))];
    kv.extend(extra);
    J::obj(kv)
}

pub fn parse_history(case: &J) -> Vec<Act> {
    case.garr("history").iter().filter_map(|a| a.as_str().and_then(Act::parse)).collect()
}

pub fn fingerprint(acts: &[Act]) -> u64 {
    let mut f = Fp::new();
    for a in acts {
        f = f.s(&a.name());
    }
    f.0
}

/// What applying one action produced.
#[derive(Debug, Clone, PartialEq, Eq)]
pub enum Applied {
    Done,
    Poll(PollOut),
    /// witness round trip: Ok(polling calls used) or why it did not complete
    Trip(Result<usize, String>),
    /// the action was not applicable in this state and was skipped
    Skipped,
}

/// Applies one action. Not-applicable actions are skipped so that random histories stay valid.
pub fn apply(sim: &mut Sim, a: &Act) -> Applied {
    match a {
        Act::Connect(c) => {
            if sim.gen_of(*c).is_some() {
                return Applied::Skipped;
            }
            if sim.connect(*c) {
                Applied::Done
            } else {
                Applied::Skipped
            }
        }
        Act::Send(c, p) => {
            let gi = match sim.gen_of(*c) {
                Some(g) => g,
                None => return Applied::Skipped,
            };
            if sim.gens[gi].shut_wr || sim.gens[gi].send_failed {
                return Applied::Skipped;
            }
            let has_rest = sim.gens[gi].pending_rest.is_some();
            match p {
                Piece::Rest => {
                    if !has_rest {
                        return Applied::Skipped;
                    }
                    sim.finish_request(gi);
                }
                _ if has_rest => return Applied::Skipped,
                Piece::Get => {
                    sim.send_request(gi, ReqKind::Get);
                }
                Piece::Put => {
                    sim.send_request(gi, ReqKind::PutBody(12));
                }
                Piece::Big => {
                    sim.send_request(gi, ReqKind::PutBody(5000));
                }
                Piece::Head => {
                    let cut = 5 + (sim.step * 7) % 20;
                    sim.send_head(gi, ReqKind::Get, cut);
                }
                Piece::Two => {
                    let (t1, mut b1) = sim.next_request(gi, ReqKind::Get);
                    let (t2, b2) = sim.next_request(gi, ReqKind::Get);
                    b1.extend_from_slice(&b2);
                    let n = sim.send_bytes(gi, &b1);
                    if n == b1.len() {
                        sim.gens[gi].completed.push(t1);
                        sim.gens[gi].completed.push(t2);
                    } else {
                        sim.gens[gi].send_failed = true;
                    }
                }
                Piece::Many => {
                    let mut all = Vec::new();
                    let mut tags = Vec::new();
                    for _ in 0..9 {
                        let (t, b) = sim.next_request(gi, ReqKind::Get);
                        all.extend_from_slice(&b);
                        tags.push(t);
                    }
                    let n = sim.send_bytes(gi, &all);
                    if n == all.len() {
                        sim.gens[gi].completed.extend(tags);
                    } else {
                        sim.gens[gi].send_failed = true;
                    }
                }
                Piece::Aligned => {
                    // pick the body length so that the whole request is a multiple of the 1024-byte window
                    let (tag, probe) = sim.next_request(gi, ReqKind::PutBody(1000));
                    let head = probe.len() - 1000;
                    let windows = 2 + sim.step % 2;
                    let mut body_len = windows * 1024 - head;
                    // the declared length has a fixed number of digits in this range; correct if it changed
                    let mut bytes = crate::sim::make_request(&tag, ReqKind::PutBody(body_len));
                    if bytes.len() != windows * 1024 {
                        body_len = (body_len as isize + (windows * 1024) as isize - bytes.len() as isize) as usize;
                        bytes = crate::sim::make_request(&tag, ReqKind::PutBody(body_len));
                    }
                    let n = sim.send_bytes(gi, &bytes);
                    if n == bytes.len() {
                        sim.gens[gi].completed.push(tag);
                    } else {
                        sim.gens[gi].pending_rest = Some(bytes[n..].to_vec());
                        sim.gens[gi].completed.push(format!("?{}", tag));
                    }
                }
                Piece::Expect => {
                    let (tag, bytes) = sim.next_request(gi, ReqKind::PutExpect(20));
                    let hdr_end = bytes.windows(4).position(|w| w == b"\r\n\r\n").map(|i| i + 4).unwrap_or(bytes.len());
                    let n = sim.send_bytes(gi, &bytes[..hdr_end]);
                    sim.gens[gi].pending_rest = Some(bytes[n..].to_vec());
                    sim.gens[gi].completed.push(format!("?{}", tag));
                }
                Piece::GetExpect => {
                    let (t1, mut b1) = sim.next_request(gi, ReqKind::Get);
                    let (t2, b2) = sim.next_request(gi, ReqKind::PutExpect(20));
                    let hdr_end = b2.windows(4).position(|w| w == b"\r\n\r\n").map(|i| i + 4).unwrap_or(b2.len());
                    b1.extend_from_slice(&b2[..hdr_end]);
                    let n = sim.send_bytes(gi, &b1);
                    if n == b1.len() {
                        sim.gens[gi].completed.push(t1);
                        sim.gens[gi].pending_rest = Some(b2[hdr_end..].to_vec());
                        sim.gens[gi].completed.push(format!("?{}", t2));
                    } else {
                        sim.gens[gi].send_failed = true;
                    }
                }
                Piece::Bad => {
                    sim.gens[gi].misbehaved = true;
                    sim.send_bytes(gi, b"BADMETHOD /x HTTP/1.1\r\n\r\n");
                }
                Piece::Garbage => {
                    sim.gens[gi].misbehaved = true;
                    sim.send_bytes(gi, b"\x00\xff garbage \r\r\n\n::\r\n");
                }
                Piece::Oversize => {
                    // "above the limit" needs the limit this connection got when it was accepted; while the
                    // client still waits in the accept queue that limit is not decided yet (the application
                    // may change it first), so the piece is only meaningful on an admitted connection
                    if sim.gens[gi].admission != crate::sim::Admission::Accepted && sim.limit_changed {
                        return Applied::Skipped;
                    }
                    sim.gens[gi].misbehaved = true;
                    let l = sim.gens[gi].limit_at_accept;
                    // tagged like every request of this client, so that a server that yields it anyway is caught by attribution
                    let (tag, _) = sim.next_request(gi, ReqKind::Get);
                    let msg = format!("PUT {} HTTP/1.1\r\nContent-Length: {}\r\n\r\n", tag, l + 1);
                    sim.send_bytes(gi, msg.as_bytes());
                }
            }
            Applied::Done
        }
        Act::Drain(c) | Act::DrainSome(c) => {
            let gi = match sim.gen_of(*c) {
                Some(g) => g,
                None => return Applied::Skipped,
            };
            if sim.gens[gi].shut_rd {
                return Applied::Skipped;
            }
            let max = if matches!(a, Act::DrainSome(_)) { 100 } else { 0 };
            sim.drain(gi, max);
            Applied::Done
        }
        Act::Close(c) => match sim.gen_of(*c) {
            Some(gi) => {
                sim.close(gi);
                Applied::Done
            }
            None => Applied::Skipped,
        },
        Act::ShutRd(c) | Act::ShutWr(c) => match sim.gen_of(*c) {
            Some(gi) => {
                let rd = matches!(a, Act::ShutRd(_));
                if (rd && sim.gens[gi].shut_rd) || (!rd && sim.gens[gi].shut_wr) {
                    return Applied::Skipped;
                }
                sim.shutdown(gi, if rd { Shutdown::Read } else { Shutdown::Write });
                Applied::Done
            }
            None => Applied::Skipped,
        },
        Act::Poll => Applied::Poll(sim.poll()),
        Act::Respond(i, s) => {
            if *i >= sim.outstanding.len() {
                return Applied::Skipped;
            }
            sim.respond(*i, s.bytes());
            Applied::Done
        }
        Act::RespondNewest(s) => {
            if sim.outstanding.is_empty() {
                return Applied::Skipped;
            }
            let i = sim.outstanding.len() - 1;
            sim.respond(i, s.bytes());
            Applied::Done
        }
        Act::RespondAll(s) => {
            if sim.outstanding.is_empty() {
                return Applied::Skipped;
            }
            while !sim.outstanding.is_empty() {
                sim.respond(0, s.bytes());
            }
            Applied::Done
        }
        Act::RespondAllRev(s) => {
            if sim.outstanding.is_empty() {
                return Applied::Skipped;
            }
            while !sim.outstanding.is_empty() {
                let i = sim.outstanding.len() - 1;
                sim.respond(i, s.bytes());
            }
            Applied::Done
        }
        Act::RespondBatch(k, s) => {
            if sim.outstanding.is_empty() {
                return Applied::Skipped;
            }
            let n = sim.outstanding.len();
            let mut order: Vec<usize> = (0..n).collect();
            match *k {
                0 => {}
                1 => order.reverse(),
                k => {
                    let mut r = Rng::new(k);
                    for i in (1..n).rev() {
                        order.swap(i, r.below(i + 1));
                    }
                }
            }
            sim.respond_batch(&order, s.bytes());
            Applied::Done
        }
        Act::RespondAgain => {
            if sim.respond_again() {
                Applied::Done
            } else {
                Applied::Skipped
            }
        }
        Act::Flush => {
            sim.flush();
            Applied::Done
        }
        Act::SetLimit(l) => {
            sim.set_limit(*l);
            Applied::Done
        }
        Act::Kill => {
            sim.signal_kill();
            Applied::Done
        }
        Act::RoundTrip(c) => {
            match sim.gen_of(*c) {
                Some(gi) if sim.gens[gi].admission == crate::sim::Admission::Accepted && sim.gens[gi].pending_rest.is_none() && !sim.gens[gi].shut_rd && !sim.gens[gi].shut_wr => {}
                _ => return Applied::Skipped,
            }
            Applied::Trip(sim.round_trip(*c, 16))
        }
    }
}

/// Evidence only: an abstract signature of the server's state (multiset of per-connection
/// (epoll-side state, in-flight class, pending output, parser state, carried bytes), plus the number
/// of outstanding requests and of clients waiting on the listener), from the read-only probe.
pub fn state_signature(sim: &Sim) -> u64 {
    let mut conns: Vec<u64> = sim
        .server
        .verif_probe()
        .iter()
        .map(|c| {
            let pending_out = (c.connection.response_queue > 0 || c.connection.response_buffer.is_some()) as u64;
            (c.state as u64) | ((c.in_flight.min(2) as u64) << 2) | (pending_out << 4) | ((c.connection.state as u64) << 5) | (((c.connection.read_cursor > 0) as u64) << 8) | (((c.connection.body_bytes_to_be_read > 0) as u64) << 9)
        })
        .collect();
    conns.sort_unstable();
    let mut f = Fp::new();
    for c in conns {
        f = f.u(c);
    }
    let waiting = sim.gens.iter().filter(|g| g.admission == crate::sim::Admission::Pending && g.stream.is_some()).count().min(3);
    f.u(sim.outstanding.len().min(4) as u64).u(waiting as u64).0
}

/// A property-specific monitor over simulator histories.
pub trait HistoryProp {
    fn new_sim(&mut self, ctx: &mut Ctx) -> Option<Sim>;
    /// actions enabled in this state (for the exhaustive explorer)
    fn enabled(&self, sim: &Sim) -> Vec<Act>;
    /// inline oracle, after every applied action
    fn after(&mut self, ctx: &mut Ctx, sim: &mut Sim, act: &Act, applied: &Applied) -> Option<(String, String)>;
    /// end-of-history oracle (may drive the simulator further, e.g. a settle loop)
    fn finish(&mut self, ctx: &mut Ctx, sim: &mut Sim) -> Option<(String, String)>;
    /// was this history non-trivial for the evidence count?
    fn nontrivial(&self, sim: &Sim) -> bool;
}

pub struct RunOut {
    pub violation: Option<(String, String)>,
    pub enabled: Vec<Act>,
}

/// Executes one history from scratch with all inline oracles. `finish` also runs the end oracle.
pub fn run_history<P: HistoryProp>(ctx: &mut Ctx, prop: &mut P, acts: &[Act], finish: bool, want_enabled: bool) -> RunOut {
    let mut sim = match prop.new_sim(ctx) {
        Some(s) => s,
        None => return RunOut { violation: None, enabled: Vec::new() },
    };
    for a in acts {
        let ap = apply(&mut sim, a);
        if ap == Applied::Skipped {
            continue;
        }
        if matches!(ap, Applied::Poll(_) | Applied::Trip(_)) {
            ctx.rep.state(state_signature(&sim));
        }
        if let Some(v) = prop.after(ctx, &mut sim, a, &ap) {
            return RunOut { violation: Some(v), enabled: Vec::new() };
        }
    }
    let enabled = if want_enabled { prop.enabled(&sim) } else { Vec::new() };
    let mut violation = None;
    if finish {
        violation = prop.finish(ctx, &mut sim);
        if prop.nontrivial(&sim) {
            ctx.rep.distinct(fingerprint(acts));
        }
        ctx.rep.add("server_polls", sim.polls);
        ctx.rep.max("max_ticks_in_one_requests_call", sim.max_ticks);
    }
    RunOut { violation, enabled }
}

/// Bounded-exhaustive exploration by re-execution: every sequence of enabled actions up to
/// `depth`; every node (= every prefix) is executed with the inline and the end oracle.
/// Sharding: the subtrees below depth `split` are dealt round-robin to the shards.
pub fn dfs<P: HistoryProp>(ctx: &mut Ctx, prop: &mut P, depth: usize, split: usize, sig_prefix: &str, max_violations: usize) {
    let depth = ctx.dfs_depth.unwrap_or(depth);
    // deal the subtrees out at a level where there are enough of them to keep every shard busy
    let split = split.max(5).min(depth.saturating_sub(1));
    let mut prefix: Vec<Act> = Vec::new();
    let mut counter = 0u64;
    let mut found = 0usize;
    dfs_rec(ctx, prop, &mut prefix, depth, split, &mut counter, sig_prefix, &mut found, max_violations);
}

#[allow(clippy::too_many_arguments)]
fn dfs_rec<P: HistoryProp>(ctx: &mut Ctx, prop: &mut P, prefix: &mut Vec<Act>, depth: usize, split: usize, counter: &mut u64, sig_prefix: &str, found: &mut usize, max_violations: usize) {
    if *found >= max_violations {
        return;
    }
    if prefix.len() == split {
        *counter += 1;
        if !ctx.mine(*counter) {
            return;
        }
    }
    // nodes above the split level are executed by every shard (needed to know what is enabled);
    // only shard 0 counts and judges them
    let judge = prefix.len() >= split || ctx.shard == 0;
    let run = ctx.begin();
    let out = if run || prefix.len() < depth {
        run_history(ctx, prop, prefix, judge && run, prefix.len() < depth)
    } else {
        RunOut { violation: None, enabled: Vec::new() }
    };
    if judge && run {
        ctx.rep.evaluations += 1;
        ctx.rep.count("histories_exhaustive");
        if let Some((kind, detail)) = out.violation {
            *found += 1;
            ctx.rep.violation(&format!("{}:{}", sig_prefix, kind), detail, history_json(prefix, vec![]));
            return; // extensions of a violating history add nothing
        }
    }
    if prefix.len() >= depth {
        return;
    }
    for a in out.enabled {
        prefix.push(a);
        dfs_rec(ctx, prop, prefix, depth, split, counter, sig_prefix, found, max_violations);
        prefix.pop();
    }
}

/// Random histories: `gen` produces the next action from the current enabled set and state.
pub fn random_histories<P: HistoryProp>(
    ctx: &mut Ctx,
    prop: &mut P,
    n: u64,
    len_lo: usize,
    len_hi: usize,
    sig_prefix: &str,
    choose: &mut dyn FnMut(&mut Rng, &Sim, &[Act]) -> Option<Act>,
) {
    let mut rng = ctx.rng.fork(0x51);
    for i in 0..n {
        if !ctx.begin() {
            // keep the PRNG stream aligned: a skipped case must consume what an executed one consumes,
            // which is not possible without executing; regen-replay therefore re-executes all cases
        }
        let mut sim = match prop.new_sim(ctx) {
            Some(s) => s,
            None => return,
        };
        ctx.rep.evaluations += 1;
        ctx.rep.count("histories_random");
        let len = rng.range(len_lo, len_hi);
        let mut acts: Vec<Act> = Vec::with_capacity(len);
        let mut violation = None;
        for _ in 0..len {
            let en = prop.enabled(&sim);
            let a = match choose(&mut rng, &sim, &en) {
                Some(a) => a,
                None => break,
            };
            let ap = apply(&mut sim, &a);
            if ap == Applied::Skipped {
                continue;
            }
            acts.push(a.clone());
            if matches!(ap, Applied::Poll(_) | Applied::Trip(_)) {
                ctx.rep.state(state_signature(&sim));
            }
            if let Some(v) = prop.after(ctx, &mut sim, &a, &ap) {
                violation = Some(v);
                break;
            }
        }
        if violation.is_none() {
            violation = prop.finish(ctx, &mut sim);
        }
        if prop.nontrivial(&sim) {
            ctx.rep.distinct(fingerprint(&acts));
        }
        ctx.rep.add("server_polls", sim.polls);
        ctx.rep.max("max_ticks_in_one_requests_call", sim.max_ticks);
        if ctx.rep.samples.len() < 4 && i % 50 == 3 {
            ctx.rep.sample(history_json(&acts, vec![]));
        }
        if let Some((kind, detail)) = violation {
            ctx.rep.violation(&format!("{}:{}", sig_prefix, kind), detail, history_json(&acts, vec![]));
            if ctx.rep.violations_total > 40 {
                return;
            }
        }
    }
}

/// Replays a recorded history with all oracles.
pub fn replay_history<P: HistoryProp>(ctx: &mut Ctx, prop: &mut P, case: &J, sig_prefix: &str) {
    let acts = parse_history(case);
    println!("history: {:?}", acts.iter().map(|a| a.name()).collect::<Vec<_>>());
    ctx.only_case = None;
    let out = run_history(ctx, prop, &acts, true, false);
    if let Some((kind, detail)) = out.violation {
        ctx.rep.violation(&format!("{}:{}", sig_prefix, kind), detail, history_json(&acts, vec![]));
    }
}
