//! PRNG, hashing, hex, a tiny JSON value type, and the per-shard report.
use std::collections::{BTreeMap, HashSet};
use std::fmt::Write as _;

// ---------------------------------------------------------------- PRNG

#[derive(Clone)]
pub struct Rng {
    s: [u64; 4],
}

fn splitmix(x: &mut u64) -> u64 {
    *x = x.wrapping_add(0x9E3779B97F4A7C15);
    let mut z = *x;
    z = (z ^ (z >> 30)).wrapping_mul(0xBF58476D1CE4E5B9);
    z = (z ^ (z >> 27)).wrapping_mul(0x94D049BB133111EB);
    z ^ (z >> 31)
}

impl Rng {
    pub fn new(seed: u64) -> Self {
        let mut x = seed ^ 0xA076_1D64_78BD_642F;
        let s = [
            splitmix(&mut x),
            splitmix(&mut x),
            splitmix(&mut x),
            splitmix(&mut x),
        ];
        Rng { s }
    }
    /// Derive an independent stream.
    pub fn fork(&mut self, tag: u64) -> Rng {
        Rng::new(self.next() ^ tag.wrapping_mul(0x2545F4914F6CDD1D))
    }
    pub fn next(&mut self) -> u64 {
        let r = self.s[1].wrapping_mul(5).rotate_left(7).wrapping_mul(9);
        let t = self.s[1] << 17;
        self.s[2] ^= self.s[0];
        self.s[3] ^= self.s[1];
        self.s[1] ^= self.s[2];
        self.s[0] ^= self.s[3];
        self.s[2] ^= t;
        self.s[3] = self.s[3].rotate_left(45);
        r
    }
    /// Uniform in 0..n (n > 0).
    pub fn below(&mut self, n: usize) -> usize {
        debug_assert!(n > 0);
        (self.next() % (n as u64)) as usize
    }
    /// Uniform in lo..=hi.
    pub fn range(&mut self, lo: usize, hi: usize) -> usize {
        lo + self.below(hi - lo + 1)
    }
    pub fn chance(&mut self, num: usize, den: usize) -> bool {
        self.below(den) < num
    }
    pub fn pick<'a, T>(&mut self, xs: &'a [T]) -> &'a T {
        &xs[self.below(xs.len())]
    }
    pub fn bytes(&mut self, n: usize) -> Vec<u8> {
        (0..n).map(|_| self.next() as u8).collect()
    }
}

/// Set when this process closed standard input so that descriptor number 0 is in play.
pub static DESCRIPTOR_0_FREE: std::sync::atomic::AtomicBool = std::sync::atomic::AtomicBool::new(false);

// ---------------------------------------------------------------- hashing

pub fn fnv64(data: &[u8]) -> u64 {
    let mut h: u64 = 0xcbf29ce484222325;
    for b in data {
        h ^= *b as u64;
        h = h.wrapping_mul(0x100000001b3);
    }
    h
}

/// Incremental fingerprint.
#[derive(Clone, Copy)]
pub struct Fp(pub u64);
impl Fp {
    pub fn new() -> Self {
        Fp(0xcbf29ce484222325)
    }
    pub fn bytes(mut self, data: &[u8]) -> Self {
        for b in data {
            self.0 ^= *b as u64;
            self.0 = self.0.wrapping_mul(0x100000001b3);
        }
        self.u(data.len() as u64)
    }
    pub fn u(mut self, x: u64) -> Self {
        self.0 ^= x.wrapping_mul(0x9E3779B97F4A7C15);
        self.0 = self.0.rotate_left(23).wrapping_mul(0x100000001b3);
        self
    }
    pub fn s(self, x: &str) -> Self {
        self.bytes(x.as_bytes())
    }
}

// ---------------------------------------------------------------- hex / printable

pub fn hex(data: &[u8]) -> String {
    let mut s = String::with_capacity(data.len() * 2);
    for b in data {
        let _ = write!(s, "{:02x}", b);
    }
    s
}

pub fn unhex(s: &str) -> Vec<u8> {
    let b = s.as_bytes();
    let mut out = Vec::with_capacity(b.len() / 2);
    let v = |c: u8| -> u8 {
        match c {
            b'0'..=b'9' => c - b'0',
            b'a'..=b'f' => c - b'a' + 10,
            b'A'..=b'F' => c - b'A' + 10,
            _ => 0,
        }
    };
    let mut i = 0;
    while i + 1 < b.len() {
        out.push(v(b[i]) << 4 | v(b[i + 1]));
        i += 2;
    }
    out
}

/// Human-readable rendering of bytes (escapes), truncated.
pub fn show(data: &[u8]) -> String {
    let mut s = String::new();
    let lim = 240;
    for (i, b) in data.iter().enumerate() {
        if i >= lim {
            let _ = write!(s, "...(+{} bytes)", data.len() - lim);
            break;
        }
        match *b {
            b'\r' => s.push_str("\\r"),
            b'\n' => s.push_str("\\n"),
            b'\\' => s.push_str("\\\\"),
            0x20..=0x7e => s.push(*b as char),
            _ => {
                let _ = write!(s, "\\x{:02x}", b);
            }
        }
    }
    s
}

// ---------------------------------------------------------------- JSON

#[derive(Clone, Debug, PartialEq)]
pub enum J {
    Null,
    Bool(bool),
    Int(i64),
    Str(String),
    Arr(Vec<J>),
    Obj(Vec<(String, J)>),
}

impl J {
    pub fn s(x: &str) -> J {
        J::Str(x.to_string())
    }
    pub fn u(x: u64) -> J {
        J::Int(x as i64)
    }
    pub fn hexs(x: &[u8]) -> J {
        J::Str(hex(x))
    }
    pub fn obj(kv: Vec<(&str, J)>) -> J {
        J::Obj(kv.into_iter().map(|(k, v)| (k.to_string(), v)).collect())
    }
    pub fn get(&self, k: &str) -> Option<&J> {
        if let J::Obj(kv) = self {
            kv.iter().find(|(kk, _)| kk == k).map(|(_, v)| v)
        } else {
            None
        }
    }
    pub fn as_str(&self) -> Option<&str> {
        if let J::Str(s) = self {
            Some(s)
        } else {
            None
        }
    }
    pub fn as_i64(&self) -> Option<i64> {
        if let J::Int(i) = self {
            Some(*i)
        } else {
            None
        }
    }
    pub fn as_u64(&self) -> Option<u64> {
        self.as_i64().map(|i| i as u64)
    }
    pub fn as_arr(&self) -> Option<&Vec<J>> {
        if let J::Arr(a) = self {
            Some(a)
        } else {
            None
        }
    }
    pub fn gs(&self, k: &str) -> String {
        self.get(k).and_then(|v| v.as_str()).unwrap_or("").to_string()
    }
    pub fn gu(&self, k: &str) -> u64 {
        self.get(k).and_then(|v| v.as_u64()).unwrap_or(0)
    }
    pub fn ghex(&self, k: &str) -> Vec<u8> {
        unhex(&self.gs(k))
    }
    pub fn garr(&self, k: &str) -> Vec<J> {
        self.get(k).and_then(|v| v.as_arr()).cloned().unwrap_or_default()
    }

    pub fn write(&self, out: &mut String) {
        match self {
            J::Null => out.push_str("null"),
            J::Bool(b) => out.push_str(if *b { "true" } else { "false" }),
            J::Int(i) => {
                let _ = write!(out, "{}", i);
            }
            J::Str(s) => {
                out.push('"');
                for c in s.chars() {
                    match c {
                        '"' => out.push_str("\\\""),
                        '\\' => out.push_str("\\\\"),
                        '\n' => out.push_str("\\n"),
                        '\r' => out.push_str("\\r"),
                        '\t' => out.push_str("\\t"),
                        c if (c as u32) < 0x20 => {
                            let _ = write!(out, "\\u{:04x}", c as u32);
                        }
                        c => out.push(c),
                    }
                }
                out.push('"');
            }
            J::Arr(a) => {
                out.push('[');
                for (i, v) in a.iter().enumerate() {
                    if i > 0 {
                        out.push(',');
                    }
                    v.write(out);
                }
                out.push(']');
            }
            J::Obj(kv) => {
                out.push('{');
                for (i, (k, v)) in kv.iter().enumerate() {
                    if i > 0 {
                        out.push(',');
                    }
                    J::Str(k.clone()).write(out);
                    out.push(':');
                    v.write(out);
                }
                out.push('}');
            }
        }
    }
    pub fn to_string(&self) -> String {
        let mut s = String::new();
        self.write(&mut s);
        s
    }

    pub fn parse(text: &str) -> Result<J, String> {
        let b = text.as_bytes();
        let mut p = 0usize;
        let v = parse_value(b, &mut p)?;
        skip_ws(b, &mut p);
        if p != b.len() {
            return Err(format!("trailing data at {}", p));
        }
        Ok(v)
    }
}

fn skip_ws(b: &[u8], p: &mut usize) {
    while *p < b.len() && (b[*p] == b' ' || b[*p] == b'\n' || b[*p] == b'\r' || b[*p] == b'\t') {
        *p += 1;
    }
}

fn parse_value(b: &[u8], p: &mut usize) -> Result<J, String> {
    skip_ws(b, p);
    if *p >= b.len() {
        return Err("eof".into());
    }
    match b[*p] {
        b'n' => {
            *p += 4;
            Ok(J::Null)
        }
        b't' => {
            *p += 4;
            Ok(J::Bool(true))
        }
        b'f' => {
            *p += 5;
            Ok(J::Bool(false))
        }
        b'"' => {
            *p += 1;
            let mut s: Vec<u8> = Vec::new();
            loop {
                if *p >= b.len() {
                    return Err("eof in string".into());
                }
                let c = b[*p];
                *p += 1;
                match c {
                    b'"' => break,
                    b'\\' => {
                        let e = b[*p];
                        *p += 1;
                        match e {
                            b'n' => s.push(b'\n'),
                            b'r' => s.push(b'\r'),
                            b't' => s.push(b'\t'),
                            b'b' => s.push(8),
                            b'f' => s.push(12),
                            b'u' => {
                                let h = std::str::from_utf8(&b[*p..*p + 4]).map_err(|e| e.to_string())?;
                                let cp = u32::from_str_radix(h, 16).map_err(|e| e.to_string())?;
                                *p += 4;
                                let ch = char::from_u32(cp).unwrap_or('?');
                                let mut buf = [0u8; 4];
                                s.extend_from_slice(ch.encode_utf8(&mut buf).as_bytes());
                            }
                            other => s.push(other),
                        }
                    }
                    other => s.push(other),
                }
            }
            Ok(J::Str(String::from_utf8_lossy(&s).into_owned()))
        }
        b'[' => {
            *p += 1;
            let mut a = Vec::new();
            loop {
                skip_ws(b, p);
                if *p < b.len() && b[*p] == b']' {
                    *p += 1;
                    break;
                }
                a.push(parse_value(b, p)?);
                skip_ws(b, p);
                if *p < b.len() && b[*p] == b',' {
                    *p += 1;
                }
            }
            Ok(J::Arr(a))
        }
        b'{' => {
            *p += 1;
            let mut kv = Vec::new();
            loop {
                skip_ws(b, p);
                if *p < b.len() && b[*p] == b'}' {
                    *p += 1;
                    break;
                }
                let k = match parse_value(b, p)? {
                    J::Str(s) => s,
                    _ => return Err("key".into()),
                };
                skip_ws(b, p);
                if *p >= b.len() || b[*p] != b':' {
                    return Err("colon".into());
                }
                *p += 1;
                let v = parse_value(b, p)?;
                kv.push((k, v));
                skip_ws(b, p);
                if *p < b.len() && b[*p] == b',' {
                    *p += 1;
                }
            }
            Ok(J::Obj(kv))
        }
        _ => {
            let st = *p;
            while *p < b.len() && (b[*p] == b'-' || b[*p] == b'+' || b[*p].is_ascii_digit() || b[*p] == b'.' || b[*p] == b'e' || b[*p] == b'E') {
                *p += 1;
            }
            let t = std::str::from_utf8(&b[st..*p]).map_err(|e| e.to_string())?;
            if let Ok(i) = t.parse::<i64>() {
                Ok(J::Int(i))
            } else if let Ok(f) = t.parse::<f64>() {
                Ok(J::Int(f as i64))
            } else {
                Err(format!("bad number '{}' at {}", t, st))
            }
        }
    }
}

// ---------------------------------------------------------------- report

#[derive(Clone, Copy, PartialEq, Eq, Debug)]
pub enum Tier {
    Quick,
    Thorough,
}

pub struct Violation {
    /// Stable signature used to match known findings (class of witness).
    pub sig: String,
    /// Human-readable expected vs observed.
    pub detail: String,
    /// Self-contained case for `--replay`.
    pub case: J,
}

pub struct Report {
    pub prop: String,
    pub evaluations: u64,
    pub counters: BTreeMap<String, u64>,
    pub distinct: HashSet<u64>,
    pub distinct_overflow: u64,
    /// distinct abstract states of the system under test seen by the monitors (evidence)
    pub states: HashSet<u64>,
    pub samples: Vec<J>,
    pub violations: Vec<Violation>,
    pub violations_total: u64,
    pub notes: Vec<String>,
}

const MAX_DISTINCT: usize = 3_000_000;
const MAX_SAMPLES: usize = 6;
const MAX_VIOLATIONS: usize = 40;

impl Report {
    pub fn new(prop: &str) -> Self {
        Report {
            prop: prop.to_string(),
            evaluations: 0,
            counters: BTreeMap::new(),
            distinct: HashSet::new(),
            distinct_overflow: 0,
            states: HashSet::new(),
            samples: Vec::new(),
            violations: Vec::new(),
            violations_total: 0,
            notes: Vec::new(),
        }
    }
    pub fn count(&mut self, k: &str) {
        self.add(k, 1);
    }
    pub fn add(&mut self, k: &str, n: u64) {
        if let Some(v) = self.counters.get_mut(k) {
            *v += n;
        } else {
            self.counters.insert(k.to_string(), n);
        }
    }
    pub fn max(&mut self, k: &str, n: u64) {
        let e = self.counters.entry(k.to_string()).or_insert(0);
        if n > *e {
            *e = n;
        }
    }
    /// Record a distinct non-trivial case fingerprint.
    pub fn distinct(&mut self, fp: u64) {
        if self.distinct.len() < MAX_DISTINCT {
            self.distinct.insert(fp);
        } else {
            self.distinct_overflow += 1;
        }
    }
    pub fn state(&mut self, sig: u64) {
        if self.states.len() < MAX_DISTINCT {
            self.states.insert(sig);
        }
    }
    pub fn want_sample(&self) -> bool {
        self.samples.len() < MAX_SAMPLES
    }
    pub fn sample(&mut self, j: J) {
        if self.samples.len() < MAX_SAMPLES {
            self.samples.push(j);
        }
    }
    pub fn violation(&mut self, sig: &str, detail: String, case: J) {
        self.violations_total += 1;
        // the process-wide condition the case ran under belongs to the case (replay restores it)
        let case = match case {
            J::Obj(mut kv) if DESCRIPTOR_0_FREE.load(std::sync::atomic::Ordering::Relaxed) => {
                kv.push(("descriptor_0_free".to_string(), J::Bool(true)));
                J::Obj(kv)
            }
            other => other,
        };
        // keep at most a few per signature so that one defect does not hide others
        let same = self.violations.iter().filter(|v| v.sig == sig).count();
        if same < 3 && self.violations.len() < MAX_VIOLATIONS {
            self.violations.push(Violation {
                sig: sig.to_string(),
                detail,
                case,
            });
        }
    }
    pub fn note(&mut self, s: String) {
        if self.notes.len() < 20 {
            self.notes.push(s);
        }
    }

    pub fn to_json(&self) -> J {
        let counters = J::Obj(self.counters.iter().map(|(k, v)| (k.clone(), J::u(*v))).collect());
        let viol = J::Arr(
            self.violations
                .iter()
                .map(|v| {
                    J::obj(vec![
                        ("sig", J::s(&v.sig)),
                        ("detail", J::s(&v.detail)),
                        ("case", v.case.clone()),
                    ])
                })
                .collect(),
        );
        J::obj(vec![
            ("prop", J::s(&self.prop)),
            ("evaluations", J::u(self.evaluations)),
            ("distinct_local", J::u(self.distinct.len() as u64)),
            ("distinct_overflow", J::u(self.distinct_overflow)),
            ("counters", counters),
            ("samples", J::Arr(self.samples.clone())),
            ("violations", viol),
            ("violations_total", J::u(self.violations_total)),
            ("notes", J::Arr(self.notes.iter().map(|n| J::s(n)).collect())),
        ])
    }

    /// Writes `<out>` (json) and `<out>.fp` (raw little-endian u64 fingerprints).
    pub fn write(&self, out: &str) {
        let mut fp: Vec<u8> = Vec::with_capacity(self.distinct.len() * 8);
        for h in &self.distinct {
            fp.extend_from_slice(&h.to_le_bytes());
        }
        let _ = std::fs::write(format!("{}.fp", out), fp);
        if !self.states.is_empty() {
            let mut st: Vec<u8> = Vec::with_capacity(self.states.len() * 8);
            for h in &self.states {
                st.extend_from_slice(&h.to_le_bytes());
            }
            let _ = std::fs::write(format!("{}.st", out), st);
        }
        let tmp = format!("{}.tmp", out);
        std::fs::write(&tmp, self.to_json().to_string()).expect("write report");
        std::fs::rename(&tmp, out).expect("rename report");
    }
}
