#!/usr/bin/env python3
"""Regenerates /verif/MANIFEST.json from driver/props.py (single source of truth)."""
import json, os, sys
VERIF = os.path.dirname(os.path.dirname(os.path.abspath(__file__)))
sys.path.insert(0, os.path.join(VERIF, "driver"))
from props import PROPS

ids = [json.loads(l)["id"] for l in open(os.path.join(VERIF, "properties.jsonl"))]
checks, na = [], []
for pid in ids:
    m = PROPS.get(pid)
    if not m:
        na.append({"property_id": pid, "reason": "not claimed yet: the monitor for this property is still under construction (see DESIGN.md section 3)"})
        continue
    checks.append({
        "property_id": pid,
        "quick_cmd": "./check %s quick" % pid,
        "thorough_cmd": "./check %s thorough" % pid,
        "evidence_file": "/verif/evidence/%s.json" % pid,
        "replay_cmd_template": "./check %s --replay {path}" % pid,
        "engine": m.get("engine", "scripted-stream"),
        "level_claimed": {"category": m["level"], "text": m.get("level_text", m["rule"][:400]), "design_ref": m.get("design_ref", "DESIGN.md")},
        "level_note": "; ".join(m.get("assumptions", [])) or "none",
        "technique": m.get("technique", "runtime monitoring"),
    })
man = {
    "version": 1,
    "setup_cmd": "cd /verif/harness && export CARGO_NET_OFFLINE=true && cargo build --release --offline && cargo build --profile relfast --offline && cargo build --offline && (RUSTFLAGS='-Zsanitizer=address -Cforce-frame-pointers=yes' cargo +nightly build --release --offline --target x86_64-unknown-linux-gnu --target-dir target-asan || true) && (MIRIFLAGS=-Zmiri-disable-isolation CARGO_TARGET_DIR=target-miri cargo +nightly miri run --release -- merge-fp || true)",
    "hooks": {
        "guard": "cargo feature verif_hooks (micro_http/Cargo.toml [features])",
        "enable": "the harness crate depends on micro_http = { path = \"/repo\", features = [\"verif_hooks\"] }",
        "baseline_off_cmd": "cd /repo && cargo test --workspace --no-fail-fast --offline",
        "source_commits": ["ded8b6c"],
        "add_only": True,
    },
    "engines": [
        {"name": "scripted-stream", "path": "/verif/harness/src/stream.rs", "serves_properties": [p for p in ids if PROPS.get(p, {}).get("engine") == "scripted-stream"],
         "kind_free_text": "real HttpConnection over an in-memory Read+Write+ScmSocket whose read sizes, write results and errnos are scripted; monitors compare against reference models"},
        {"name": "server-simulator", "path": "/verif/harness/src/sim.rs", "serves_properties": [p for p in ids if PROPS.get(p, {}).get("engine") == "server-simulator"],
         "kind_free_text": "real HttpServer + real non-blocking UnixStream clients driven by one thread through deterministic action histories; monitors check tagged request/response histories, fd tables and epoll readiness"},
        {"name": "pure", "path": "/verif/harness/src/props", "serves_properties": [p for p in ids if PROPS.get(p, {}).get("engine") == "pure"],
         "kind_free_text": "public pure functions driven over bounded-exhaustive and random inputs against reference models"},
    ],
    "checks": checks,
    "not_applicable": na,
    "notes": "Every check rebuilds the harness (and thus micro_http with hooks on) from /repo's working tree before running. exit 2 + an INCONCLUSIVE line means neither held nor violated. Known findings: /verif/known_findings.json.",
}
json.dump(man, open(os.path.join(VERIF, "MANIFEST.json"), "w"), indent=1)
print("claimed:", [c["property_id"] for c in checks], "unclaimed:", len(na))
