#!/bin/sh
# run_all.sh quick|thorough [seed]  — runs every claimed check on the current tree, prints one line each.
tier=${1:-quick}; seed=${2:-1}
cd /verif
rc_all=0
for p in $(python3 -c "import json;print(' '.join(c['property_id'] for c in json.load(open('MANIFEST.json'))['checks']))"); do
  out=$(./check $p $tier --seed $seed 2>&1); rc=$?
  echo "$p rc=$rc $(echo "$out" | grep -E '^\[done\]' | tail -1)"
  if [ $rc -ne 0 ]; then rc_all=1; echo "$out" | grep -E 'VIOLATION|INCONCLUSIVE|KNOWN-FINDING' | head -5; fi
done
exit $rc_all
