"""Per-property metadata: level, evidence rule, assumptions, coverage floors, stages."""

PROPS = {}


def prop(pid, **kw):
    PROPS[pid] = kw


prop(
    "C01",
    title="Delivered requests depend only on the byte stream, not on how reads split it",
    level="exploration",
    technique="runtime monitoring: segmentation-confluence + reference-grammar oracle over executions of the real connection on a scripted stream",
    design_ref="DESIGN.md §3 C01",
    engine="scripted-stream",
    rule="Streams: seeded grammar streams of 1-4 pipelined requests, alignment-targeted streams (each structural element "
         "placed at 1024k+d, d in -3..3), truncated/corrupted variants. Each stream is executed under the maximal-read "
         "segmentation, every single cut position, pairs of cuts from the structural positions, constant read sizes and "
         "random multi-cut segmentations, with and without an EAGAIN/EINTR read in every gap. evaluations = executions of "
         "the real HttpConnection; distinct_nontrivial = distinct (stream, limit, cuts, gap kind, eof) fingerprints among "
         "executions that needed at least two try_read calls.",
    assumptions=[
        "M1 (reference grammar) is an independent reading of the documented grammar; errors are attributed when a line's CRLF or its 1024th byte arrives",
        "the scripted stream hands out at most the bytes the connection asks for, like recvmsg",
    ],
    floors={"any": {"requests_delivered": 1000, "cut_between_CR_and_LF": 50, "cut_between_CRLF_and_CRLF": 20,
                    "cut_at_window_multiple": 20, "cut_body_next_request_boundary": 20, "empty_reads_eagain": 100,
                    "empty_reads_eintr": 100, "runs_ending_in_parse_error": 10, "family_aligned_streams": 20}},
)
