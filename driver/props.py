"""Per-property metadata: level, evidence rule, assumptions, coverage floors, stages."""

PROPS = {}


def prop(pid, **kw):
    PROPS[pid] = kw


prop(
    "C01",
    title="Delivered requests depend only on the byte stream, not on how reads split it",
    level="exploration",
    technique="runtime monitoring: segmentation-confluence + reference-grammar oracle over executions of the real connection on a scripted stream",
    design_ref="DESIGN.md §3 C01",
    engine="scripted-stream",
    rule="Streams: seeded grammar streams of 1-4 pipelined requests, alignment-targeted streams (each structural element "
         "placed at 1024k+d, d in -3..3), truncated/corrupted variants. Each stream is executed under the maximal-read "
         "segmentation, every single cut position, pairs of cuts from the structural positions, constant read sizes and "
         "random multi-cut segmentations, with and without an EAGAIN/EINTR read in every gap. evaluations = executions of "
         "the real HttpConnection; distinct_nontrivial = distinct (stream, limit, cuts, gap kind, eof) fingerprints among "
         "executions that needed at least two try_read calls.",
    assumptions=[
        "M1 (reference grammar) is an independent reading of the documented grammar; errors are attributed when a line's CRLF or its 1024th byte arrives",
        "the scripted stream hands out at most the bytes the connection asks for, like recvmsg",
    ],
    floors={"any": {"requests_delivered": 1000, "cut_between_CR_and_LF": 50, "cut_between_CRLF_and_CRLF": 20,
                    "cut_at_window_multiple": 20, "cut_body_next_request_boundary": 20, "empty_reads_eagain": 100,
                    "empty_reads_eintr": 100, "runs_ending_in_parse_error": 10, "family_aligned_streams": 20}},
)

prop(
    "C02",
    title="Accepted requests are exactly those of the documented grammar, fields verbatim",
    level="exploration",
    technique="runtime monitoring: independent whole-stream reference parser (M1/M2) compared with the real connection on generated and corrupted streams, both directions",
    design_ref="DESIGN.md §3 C02",
    engine="scripted-stream",
    rule="Base streams of 1-3 pipelined grammar requests; for each: the valid stream, every single-point corruption of the "
         "quantifier (30 named corruptions) at every request, random double corruptions, declared lengths L-1/L/L+1, random "
         "byte-level edits, plus a fixed list of edge streams; each under maximal reads and one random segmentation. "
         "evaluations = executions compared with M1; distinct_nontrivial = distinct (stream, limit) for which M1 predicts at "
         "least one delivery, interim response or error.",
    assumptions=[
        "M1/M2 are written from the property statements; `+N` content lengths are a don't-care and skipped",
        "error kinds are compared as families: request-line shape / method / URI / version / any fatal header / size limit with both numbers",
    ],
    floors={"any": {"model_deliveries": 5000, "model_error_Method": 100, "model_error_Uri": 100, "model_error_Version": 100,
                    "model_error_InvalidRequest": 100, "model_error_Header": 100, "model_error_SizeLimit": 50,
                    "double_corruptions": 100, "segmented_runs_with_empty_reads_between": 1000}},
)

prop(
    "C11",
    title="A rejected request is never delivered later; parsing restarts clean after errors",
    level="exploration",
    technique="runtime monitoring: differential execution of a post-error connection against a fresh connection on the same continuation, step by step",
    design_ref="DESIGN.md §3 C11",
    engine="scripted-stream",
    rule="Prefix A = 0-2 valid requests + one offending request (every corruption of C02, over-long request/header line, "
         "size limit), fed under every sampled cut position (dense near the offending element), random multi-cuts and "
         "byte-at-a-time until the error is reported, optionally with descriptors attached to a read; continuation B from "
         "{blank lines, header-like lines, `Content-Length: 1`+blank+byte, garbage, second error, valid requests}. "
         "evaluations = (A, cuts, B, cuts) executions compared with a fresh connection; distinct_nontrivial = distinct such "
         "tuples in which the connection did report the parse error.",
    assumptions=[
        "bytes following the offending element inside the erroring read may be dropped or re-parsed (both accepted)",
        "responses already queued before the error (100-continue of earlier requests) are drained before the comparison",
    ],
    floors={"any": {"errors_in_state_reqline": 100, "errors_in_state_headers": 100, "errors_with_partial_line_buffered": 100,
                    "post_error_deliveries": 100, "cases_with_descriptors": 50, "equal_to_fresh_stepwise": 100}},
)

prop(
    "C13",
    title="100 Continue is sent exactly when asked for and a body is awaited",
    level="exploration",
    technique="runtime monitoring: output of the real connection drained after every read and parsed by an independent response reader, compared with the qualifying requests per the reference grammar",
    design_ref="DESIGN.md §3 C13",
    engine="scripted-stream",
    rule="Streams of 1-3 requests mixing Expect variants (name case, padding, unsupported values, duplicates), Content-Length in "
         "{absent,0,1,..,L-1,L,L+1}, both versions, limits {5,64,1024,51200}; segmentations: maximal, every cut in and just "
         "after each header block, all single cuts, random multi-cuts, byte-at-a-time. After every try_read the interim "
         "responses written so far must equal the qualifying requests whose header block ends within the consumed bytes. "
         "evaluations = executions; distinct_nontrivial = distinct (stream, limit, cuts) with at least one qualifying request.",
    assumptions=["M1 marks qualifying requests from the property statement", "server-level delivery of the 100 is monitored by the simulator families of C08/C13"],
    floors={"any": {"interim_responses_seen": 500, "checked_with_no_body_byte_supplied": 50, "runs_ending_in_error": 20}},
)

prop(
    "C14",
    title="One-shot request parsing agrees with the incremental connection parser",
    level="exploration",
    technique="runtime monitoring: differential execution of Request::try_from and the real connection, both directions, on the C02 corpus",
    design_ref="DESIGN.md §3 C14",
    engine="scripted-stream",
    rule="C02 corpus (valid, every corruption, double corruptions, byte edits), each slice as generated (first request + trailing "
         "bytes), cut to exactly the first request, one byte short and one byte long. (->) accepted by the one-shot parser and "
         "lines within 1024 => first delivered request identical; (<-) connection delivers exactly one request and an appended "
         "sentinel request comes out intact => one-shot result identical, except GET with a body (must be Err); max_len rule "
         "for m in {0,1,len-1,len,len+1,len+1000}. evaluations = slices judged; distinct_nontrivial = distinct slices on which "
         "a forward or backward agreement was actually established.",
    assumptions=["the connection runs with an effectively unlimited payload limit so that only the line limit restricts the comparison"],
    floors={"any": {"forward_agreements": 1000, "backward_agreements": 1000, "get_with_body_rejected_by_oneshot": 50, "max_len_reached": 1000}},
)

prop(
    "C04",
    title="Payload and line-length limits are enforced exactly and before buffering",
    level="exploration",
    technique="runtime monitoring: boundary oracle on the try_read that completes the header block, and reference-grammar comparison of lines of every length 1000..1100 at every window offset",
    design_ref="DESIGN.md §3 C04",
    engine="scripted-stream",
    rule="(a) limits L in {0..16,1023,1024,1025,51199,51200,51201,2^32-1} x declared n in {0,1,L-1,L,L+1,2L+1,2^32-2,2^32-1} x "
         "header variants; the header block arrives in one read ending at the blank line's LF with no body byte, split at every "
         "position, or sharing the read with body bytes; that very try_read must return SizeLimitExceeded(L,n) iff n > L, and "
         "delivered bodies have exactly n <= L bytes. (b) request lines and header lines of every length 1000..1100 (with CRLF) "
         "starting at every constructible stream offset 0..1023, under maximal reads, random cuts, byte-at-a-time and cuts "
         "around the line's 1024th byte: rejected iff longer than 1024, by the read that supplies the 1024th byte; accepted "
         "lines verbatim per M1. (c) server: per-connection limit fixed at accept time and 400 text (simulator family). "
         "evaluations = executions; distinct_nontrivial = distinct (family, parameters, cuts).",
    assumptions=["the kind of error for an over-long line is not named by the property: any request-line kind / any header kind is accepted",
                 "bodies above 70000 bytes are only checked for non-rejection"],
    floors={"any": {"over_limit_cases": 200, "exactly_at_limit_cases": 50, "bodies_delivered_with_exact_length": 100,
                    "lines_exactly_1024": 500, "lines_exactly_1025": 500, "lines_over_limit": 5000, "lines_within_limit": 2000}},
)

prop(
    "C06",
    title="Queued responses reach the stream completely, once, in order, under short writes",
    level="fault_enumeration",
    technique="runtime monitoring: shadow write queue checked after every enqueue/try_write call of the real connection under enumerated write faults of a scripted stream",
    design_ref="DESIGN.md §3 C06",
    engine="scripted-stream",
    rule="Exhaustive: every sequence of length 6 (quick) / 8 (thorough) over {enqueue small, enqueue 8 KiB, a burst of 3 queued EINTRs + write, write with the stream "
         "accepting 1 / len-1 / len / half, EINTR, EAGAIN, EPIPE, 0 bytes} followed by two flushing writes; every k in 1..len "
         "at the first and second write of single responses; random runs of 5-60 calls with 0-6 responses outstanding. After "
         "every call: accepted bytes == shadow concatenation, pending_write() == shadow has unsent bytes, return value, at most "
         "one stream write, none when nothing is pending. evaluations = sequences executed; distinct_nontrivial = distinct "
         "sequences that contained at least one partial write or one discard.",
    assumptions=["responses are serialized with Response::write_all to obtain the expected bytes (serialization itself is C05's subject)"],
    exhaustive={"quick": "all 11^6 call sequences of length 6 over the 11-letter alphabet", "thorough": "all 11^8 call sequences of length 8 over the 11-letter alphabet"},
    floors={"any": {"partial_writes": 1000, "discards_after_failure": 1000, "eintr_writes": 500, "writes_with_nothing_pending": 500,
                    "responses_fully_written": 1000, "single_response_every_k": 200}},
)

_C03_STAGES = {
    "quick": [
        {"flavor": "native", "shards": 16, "scale": 100},
        {"flavor": "relfast", "shards": 16, "scale": 50},
        {"flavor": "debug", "shards": 8, "scale": 2},
        {"flavor": "asan", "shards": 16, "scale": 30, "optional": True, "env": {"ASAN_OPTIONS": "halt_on_error=1:detect_leaks=1:abort_on_error=0"}},
        {"flavor": "miri", "shards": 16, "scale": 100, "optional": True, "timeout": 900},
    ],
    "thorough": [
        {"flavor": "native", "shards": 16, "scale": 100},
        {"flavor": "relfast", "shards": 16, "scale": 50},
        {"flavor": "debug", "shards": 16, "scale": 3},
        {"flavor": "asan", "shards": 16, "scale": 30, "optional": True, "env": {"ASAN_OPTIONS": "halt_on_error=1:detect_leaks=1:abort_on_error=0"}},
        {"flavor": "miri", "shards": 16, "scale": 100, "optional": True, "timeout": 3600},
    ],
}

prop(
    "C03",
    title="No input makes any parsing entry point panic, hang or block",
    level="exploration",
    technique="runtime monitoring: panic/abort/step-budget/call-counter monitors on hostile inputs and schedules, repeated under Miri (scripted stream) and AddressSanitizer (scripted stream + real socketpair) and with/without overflow checks",
    design_ref="DESIGN.md §3 C03",
    engine="scripted-stream",
    stages=_C03_STAGES,
    rule="Inputs: random bytes, structural-byte soup, grammar-derived requests with corruptions, then bit flips / inserted "
         "NUL,CR,LF,0x80-0xFF / duplication / truncation / 1000+-byte runs / odd Content-Length, lengths 0..60 KiB. Every pure "
         "parsing entry point is called on each input; connections are driven by random schedules of reads (sizes 1..100000), "
         "read errors, EOF, writes with faults, enqueue and pop that continue after every error; a real socketpair family "
         "covers recvmsg/SCM_RIGHTS. The same workload runs in five flavours: overflow-checks+debug-assertions on, off, "
         "an unoptimised build (a small share; real stack frames, no tail calls), AddressSanitizer, and a reduced Miri run aimed at reads with a large carried prefix. evaluations = cases over all "
         "flavours; distinct_nontrivial = distinct inputs (pure) plus distinct (input, schedule) whose connection kept being "
         "used after an error.",
    assumptions=[
        "a logical step budget of 2*1024+16 state-machine iterations per try_read stands for 'loops forever'",
        "ASan cannot see an overflow that stays inside the HttpConnection object; Miri can, on the few hundred reads it affords",
    ],
    floors={"quick": {"try_read_calls": 100000, "try_read_calls_after_an_error": 10000, "parse_errors_seen": 1000,
                      "socketpair_try_read_calls": 1000, "socketpair_descriptors_delivered": 10,
                      "miri:try_read_calls": 500, "asan:try_read_calls": 10000, "relfast:try_read_calls": 10000},
            "thorough": {"try_read_calls": 1000000, "miri:try_read_calls": 5000, "asan:try_read_calls": 100000, "relfast:try_read_calls": 100000}},
    timeout={"quick": 600, "thorough": 7200},
)

prop(
    "C05",
    title="Serialized responses are well-formed and self-delimiting (Content-Length = body)",
    level="exploration",
    technique="runtime monitoring: layout model over builder-call sequences, independent re-reader over concatenations, split-sink equivalence",
    design_ref="DESIGN.md §3 C05",
    engine="pure",
    rule="2 versions x 11 status codes x every sequence of <= 3 (quick) / <= 5 (thorough) builder calls over a concrete alphabet of 18 "
         "calls (6 body shapes incl. empty, CRLFCRLF, a fake response, 2 KiB; both content types; deprecation; encoding; 2 server "
         "strings; 3 allow lists; 3 allow_method), plus random sequences of length <= 5 incl. a 64 KiB body; random concatenations "
         "of 2-8 responses re-read by M3; sinks accepting 1/2/7/1000/all bytes per call with EINTR injected. evaluations = responses "
         "and concatenations checked; distinct_nontrivial = distinct (version, status, call sequence) in which a body was set.",
    assumptions=["the default Server string and default Content-Type are not pinned by the property: until set explicitly the observed value is accepted (any CR/LF-free server string, either media type)",
                 "set_content_length is outside the property's alphabet and is not called"],
    exhaustive={"quick": "all builder-call sequences of length <= 3 over the 18-call alphabet, for 2 versions x 11 codes",
                "thorough": "all builder-call sequences of length <= 5 over the 18-call alphabet, for 2 versions x 11 codes (44M responses)"},
    floors={"any": {"responses_with_body_set": 1000, "responses_without_content_length": 100, "concatenations_reread": 500,
                    "responses_recovered_exactly": 2000, "split_sink_writes": 5000}},
)

prop(
    "C15",
    title="Header rules: case-insensitive names, trimmed values, tolerant vs fatal faults",
    level="exploration",
    technique="runtime monitoring: reference header rules (M2) compared with the block parser, the line parser and Encoding::try_from on generated blocks",
    design_ref="DESIGN.md §3 C15",
    engine="pure",
    rule="Every recognised name in all 2^n letter-case patterns (n <= 6 letters) or 256 sampled patterns, with every value of its "
         "pool and SP/HTAB/U+00A0/U+2003 padding; random blocks of 0-6 lines mixing recognised names, custom names, duplicates, "
         "lines with 0/1/several colons, invalid UTF-8; Accept-Encoding lists built from identity/*/q=0 pieces. Compared: "
         "accept/reject, error family, content length, expect, chunked, accept, custom map; block == fold of lines. "
         "evaluations = blocks/values judged; distinct_nontrivial = distinct non-empty blocks.",
    assumptions=["`+N` as a Content-Length is a don't-care and not generated", "whitespace means Unicode White_Space as in str::trim",
                 "a block containing invalid UTF-8 anywhere may be rejected with a block-level kind"],
    floors={"any": {"lines_ok": 10000, "lines_unsupported_value_ignored": 5000, "lines_fatal": 5000, "blocks_accepted": 5000,
                    "blocks_rejected": 5000, "case_pattern_lines": 5000, "encoding_values": 1000}},
)

prop(
    "C16",
    title="Token and URI functions are exact, case-sensitive and round-trip",
    level="exploration",
    technique="runtime monitoring: bounded-exhaustive enumeration through the public functions against canonical tables and the abs-path definition",
    design_ref="DESIGN.md §3 C16",
    engine="pure",
    rule="All byte strings of length <= 5 over 19 symbols (letters of the tokens, their case flips, SP, NUL, 0xC3) through "
         "Method::try_from (and length <= 3 through Version/MediaType); every single-byte substitution (256 values), insertion and "
         "deletion of every canonical token; whitespace variants of media types; round trips; 11 status codes; every URI of "
         "length <= 7 (quick) / <= 10 (thorough) symbols over {h,t,p,:,/,a,.,%,e-acute} through Request::try_from(..).uri()."
         "get_abs_path(), plus a systematic scheme x authority x path family. evaluations = inputs judged; distinct_nontrivial = "
         "distinct inputs with a non-trivial expected answer (token accepted / non-empty absolute path).",
    assumptions=["media types are matched modulo Unicode whitespace as in str::trim"],
    exhaustive={"quick": "19-symbol strings up to length 5; URIs up to 7 symbols over 9 symbols; all single-byte edits of the 7 canonical tokens",
                "thorough": "19-symbol strings up to length 5; URIs up to 10 symbols over 9 symbols (3.9G); all single-byte edits of the 7 canonical tokens"},
    floors={"any": {"method_strings_enumerated": 2000000, "token_edits": 20000, "tokens_accepted": 100, "uris_with_nonempty_abs_path": 100000,
                    "uris_absolute_form_with_path": 100, "status_codes": 11, "round_trips": 7, "raw_uris_with_invalid_utf8": 500}},
)

prop(
    "C17",
    title="Router dispatches to exactly the handler registered for (method, prefix+path)",
    level="exploration",
    technique="runtime monitoring: recording handlers and a reference route map over bounded-exhaustive route tables and requests",
    design_ref="DESIGN.md §3 C17",
    engine="pure",
    rule="Every ordered route table of <= 3 (quick) / <= 4 (thorough) registrations over 3 methods x paths {'', '/', '/a', '/a/b', "
         "'/ab', '/a:b', 'a', ':'} for prefixes {'', '/p', '/a'}, plus random tables of up to 6 registrations; every request over "
         "3 methods x all prefix+path combinations in origin-form and two absolute forms. Handlers log their id; exactly the first "
         "handler registered under (method, prefix+path) must run once, else 404; Server and Content-Type stamps; duplicate "
         "registration refused. evaluations = dispatches; distinct_nontrivial = distinct (table, request) that hit a handler.",
    assumptions=["the absolute path of a request URI is computed with the C16 definition"],
    exhaustive={"quick": "all ordered tables of <= 3 registrations x 3 prefixes x all requests of the alphabet",
                "thorough": "all ordered tables of <= 4 registrations x 3 prefixes x all requests of the alphabet"},
    floors={"any": {"dispatches_to_a_handler": 10000, "dispatches_without_handler": 10000, "duplicate_registrations": 100}},
)

prop(
    "C07",
    title="A response is delivered only to the connection that sent its request, in order",
    level="exploration",
    technique="runtime monitoring: tagged request/response histories on the real server and real sockets; per-client attribution of every received byte by an independent response reader",
    design_ref="DESIGN.md §3 C07",
    engine="server-simulator",
    rule="Bounded-exhaustive: every sequence of enabled actions up to depth 7 (quick, 2 clients) / 9 (thorough, 2 clients) and 7 (thorough, 3 clients) over "
         "{connect (incl. reconnect), send whole/first part/rest/two pipelined, close, shutdown RD/WR, drain, poll (only when the "
         "epoll fd is ready), respond to any outstanding request}; every prefix is executed from a fresh server and judged. Random: "
         "histories of 20-90 actions with 4 clients biased to close-with-requests-in-flight -> reconnect -> late answer. Each "
         "history ends with a bounded settle (poll while ready, drain). evaluations = histories executed; distinct_nontrivial = "
         "distinct histories in which the application supplied at least one response.",
    assumptions=["client/server socket pairs are attributed with getpeername() on abstract client addresses (kernel observation, not a hook)",
                 "500 responses are tolerated; Err results of requests() are counted but judged by C09"],
    floors={"any": {"requests_yielded": 5000, "responses_supplied": 3000, "application_responses_received_and_attributed": 1000,
                    "closes_with_requests_in_flight": 500,
                    "histories_reusing_descriptor_of_connection_closed_with_requests_in_flight": 100}},
)

prop(
    "C08",
    title="Well-behaved clients: each request yielded once and answered; no stall, no spin",
    level="exploration",
    technique="runtime monitoring: exactly-once yield, bounded-progress settle loop gated on epoll readiness, no-spin at quiescence and flush delivery, over histories of the real server with real sockets",
    design_ref="DESIGN.md §3 C08",
    engine="server-simulator",
    rule="Bounded-exhaustive: every sequence of enabled actions up to depth 9 (quick) / 12 (thorough) for 2 clients over {connect, "
         "send whole GET / first part / rest / two pipelined / Expect headers then body, drain, poll (only when ready), respond to "
         "any outstanding request, respond to all newest-first}, and depth 8/11 with PUT bodies and flush_outgoing_writes in the "
         "alphabet; random histories of 20-120 actions with up to 4 clients, 5000-byte request bodies and responses up to 1 MiB, "
         "with and without a registered kill switch, some servers bound to a path. Every history ends with the settle loop, the "
         "completeness check, the no-spin check, then completion of partially sent requests and a second settle. evaluations = "
         "histories executed; distinct_nontrivial = distinct histories in which at least one request was yielded.",
    assumptions=["the settle bound is 80 + 8 x (requests + responses + KiB outstanding) polling calls; hitting it with the epoll fd still ready is reported as spin/no-progress",
                 "flush is only issued while every connection's unread output is below 100000 bytes (documented limit of that call)",
                 "mid-history idleness is not judged: a client that has not drained may legitimately hold the server back"],
    floors={"any": {"requests_yielded": 20000, "responses_received_in_full": 20000, "quiescent_states_checked_for_spin": 5000,
                    "quiescent_states_with_partial_request": 500, "flush_calls": 1000, "responses_delivered_by_flush": 1000,
                    "large_responses_received": 500, "bodies_sent_after_100_continue": 500,
                    "combo_state1_OUT_pendingout_unreadin_inflight": 100, "combo_state0_IN_noout_unreadin_inflight": 100}},
)

prop(
    "C09",
    title="No client can wedge the server or starve other clients",
    level="fault_enumeration",
    technique="runtime monitoring: witness round trips and Ok-only polling under enumerated client misbehaviour and delayed answers; release of dead connections observed on the process's socket table",
    design_ref="DESIGN.md §3 C09",
    engine="server-simulator",
    rule="Faults per hostile client: send valid / two pipelined / invalid / partial / oversize-declaring bytes, shutdown(RD), "
         "shutdown(WR), close, never reading (with 1 MiB responses owed), reconnect; application answers to hostile requests "
         "delayed arbitrarily. Bounded-exhaustive over these actions + poll + witness round trip (macro step) to depth 6 (quick, "
         "1 hostile) / 8 (thorough, 2 hostile); random histories of 15-70 actions with 3 hostile clients; capacity variant: 10 "
         "connections, an 11th/12th client connects and vanishes before the server polls. evaluations = histories; "
         "distinct_nontrivial = distinct histories in which a hostile client acted.",
    assumptions=["a witness round trip must complete within 16 polling calls made only while the epoll fd is ready",
                 "release is required (within 2 polling calls) only for clients that closed completely and whose yielded requests are all answered; "
                 "spinning while a dead connection is still owed answers is not flagged"],
    floors={"any": {"witness_round_trips_completed": 20000, "dead_connections_reaped": 5000,
                    "round_trips_while_a_dead_connection_is_owed_answers": 1000, "round_trips_while_a_client_has_shut_down_reading": 1000,
                    "round_trips_while_a_client_ignores_a_large_response": 500, "histories_vanishing_refused_client": 500,
                    "histories_exhaustive": 1000}},
)

prop(
    "C10",
    title="At most 10 connections; excess get 503 and close; dead connections are reaped",
    level="exploration",
    technique="runtime monitoring: capacity rules and descriptor conservation checked on the process's socket table (getpeername attribution, /proc/self/fdinfo epoll set, fcntl scan) after every polling call of histories around the capacity boundary",
    design_ref="DESIGN.md §3 C10",
    engine="server-simulator",
    rule="Scripted-random boundary histories with up to 13 clients: fill to 9/10/11/12/13 with polls interleaved or batched, churn "
         "at the boundary (close, reconnect, connect+close inside one readiness batch, sends, small/1 MiB answers, witness round "
         "trips), drain cycles with closes that leave unread input, unsent output or requests in flight, 1-3 fill/drain cycles; "
         "free random histories of 60-200 actions with 12 clients; a fifth of them with a registered kill switch. After every "
         "polling call: open served clients <= 10, refusal only if the epoll set held 10 connections before that call, 503 bytes "
         "exact + EOF; at the end: bounded settle, nothing lost, descriptor conservation, then all answers supplied and no dead "
         "connection left. evaluations = histories; distinct_nontrivial = distinct histories with at least 9 client generations.",
    assumptions=["between `entries < 10` and `10 open clients` (dead but unswept or still-owed entries) either outcome of a connect is accepted",
                 "a closed connection that is still owed answers may be kept or released"],
    floors={"any": {"refusals_observed": 2000, "refused_clients_with_exact_503_and_eof": 1000, "acceptances_into_the_last_slot": 1000,
                    "refusals_while_dead_connections_still_occupy_slots": 500, "witness_round_trips_at_capacity": 1000,
                    "descriptor_conservation_checks": 2000, "closed_with_requests_in_flight": 1000}},
)

prop(
    "C18",
    title="Shutdown request always wins: polling reports it and never blocks",
    level="exploration",
    technique="runtime monitoring: kill switch signalled at the end of every explored history prefix, then five gated polling calls must each report shutdown; with/without differential for an unsignalled switch",
    design_ref="DESIGN.md §3 C18",
    engine="server-simulator",
    rule="Bounded-exhaustive: every sequence of enabled actions up to depth 8 (quick) / 10 (thorough) with well-behaved clients and "
         "depth 7/9 with closing / half-closing clients; every node of the search (= every prefix of every history) ends with "
         "signal + 5 polls. Random histories of 1-60 actions with 4 clients. Full-batch histories: 8-10 connections that are "
         "permanently ready (closed or half-closed while answers are owed), unsent 1 MiB output, unanswered requests, 0-3 further "
         "clients waiting on the listener, then the signal. Differential: random action lists executed with and without a "
         "registered, never signalled kill switch must give identical yields and client bytes. evaluations = histories; "
         "distinct_nontrivial = distinct histories with at least one client.",
    assumptions=["a call that would block is detected by poll(2) on the server's epoll descriptor before each requests() call, so the check itself never blocks"],
    floors={"any": {"shutdown_indications_observed": 20000, "signalled_at_capacity": 1000, "signalled_at_capacity_with_a_client_waiting": 500,
                    "signalled_with_unsent_output": 500, "signalled_with_unanswered_requests": 2000,
                    "signalled_with_partially_received_request": 1000, "signalled_while_idle_without_connections": 500,
                    "differential_pairs": 500, "differential_pairs_at_capacity": 200, "max_descriptors_in_epoll_set_when_signalled": 12}},
)

prop(
    "C12",
    title="Descriptors passed with a request are delivered once, in order, never leaked",
    level="exploration",
    technique="runtime monitoring: conservation of uniquely tagged eventfds from arrival to Request.files, descriptor-table comparison after drop, sentinels against double close; scripted stream and real socketpair/SCM_RIGHTS",
    design_ref="DESIGN.md §3 C12",
    engine="scripted-stream",
    rule="Pipelined error-free streams of 1-4 requests x segmentations (none, at request boundaries, random up to 6 cuts) x "
         "assignments of descriptors to segments (0-4 segments carry 1-4, occasionally 100-253, descriptors; the EOF read may carry "
         "some), two thirds over the scripted stream, one third over a real socketpair with one sendmsg per segment (FIONREAD "
         "before/after each try_read tells which bytes a read consumed). Tags read back from Request.files must equal the tags "
         "that had arrived and were not yet handed out; descriptor table after drop == baseline; sentinels on all freed numbers "
         "survive the drop of the connection. evaluations = cases; distinct_nontrivial = distinct cases that passed at least one "
         "descriptor.",
    assumptions=["on a stream socket the descriptors of a sendmsg arrive with the read that consumes its first byte (kernel SCM_RIGHTS semantics)",
                 "input that does not parse without error is out of scope here (C11 judges it)"],
    floors={"any": {"descriptors_passed": 20000, "reads_completing_several_requests": 1000, "reads_completing_no_request": 1000,
                    "eof_reads_carrying_descriptors": 200, "sendmsg_with_descriptors": 1000, "descriptors_left_with_the_connection": 200,
                    "cases_with_late_collection": 1000}},
)


# ---- thorough-tier tool stages for the descriptor properties (optional: skipped with a note if the tool cannot run)
_FD_TOOL_STAGES = [
    {"flavor": "native", "shards": 16, "scale": 100},
    {"flavor": "strace", "binary_flavor": "native", "needs_tool": "strace", "shards": 4, "scale": 5, "tier_override": "quick", "optional": True, "timeout": 900,
     "wrapper": ["strace", "-f", "--seccomp-bpf", "-qq", "-o", "{log}", "-e", "trace=close,recvmsg,accept4"], "post": "strace_fd_lifecycle"},
    {"flavor": "valgrind", "binary_flavor": "native", "needs_tool": "valgrind", "shards": 4, "scale": 2, "tier_override": "quick", "optional": True, "timeout": 900,
     "wrapper": ["valgrind", "--track-fds=yes", "--error-exitcode=0", "--log-file={log}"], "post": "valgrind_track_fds"},
]
PROPS["C12"]["stages"] = {"thorough": _FD_TOOL_STAGES}
PROPS["C10"]["stages"] = {"thorough": _FD_TOOL_STAGES}
for _p in ("C10", "C12"):
    PROPS[_p]["floors"] = {"quick": PROPS[_p]["floors"]["any"],
                           "thorough": dict(PROPS[_p]["floors"]["any"], **{"strace:close_calls_observed": 500, "valgrind:exit_descriptor_reports_checked": 2})}
    PROPS[_p]["rule"] += (" Thorough adds two tool stages on a reduced workload: strace (every close() of the process must succeed; a close failing "
                          "with EBADF is a second close) and valgrind --track-fds=yes (no socket, eventfd or /dev/null descriptor open at exit; no memcheck error).")

