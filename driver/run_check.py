#!/usr/bin/env python3
"""Driver for the micro-http runtime monitors.

  check <ID> quick|thorough [--seed N] [--shards N]     run one property's monitors
  check <ID> --replay FILE                              re-execute one recorded case

Builds the harness against /repo's current working tree, runs the workload in watched
shard subprocesses, aggregates what the monitors observed, applies the committed list of
known findings, writes /verif/evidence/<ID>.json and prints the verdict.

exit 0  property held on everything explored (KNOWN-FINDING lines possible)
exit 1  violation: a line `VIOLATION property=<id> replay=<path>` is printed
exit 2  inconclusive (build failure, lost shard, coverage floor not reached): `INCONCLUSIVE ...`
"""
import hashlib
import json
import os
import re
import shutil
import signal
import subprocess
import sys
import time

VERIF = os.path.dirname(os.path.dirname(os.path.abspath(__file__)))
HARNESS = os.path.join(VERIF, "harness")
sys.path.insert(0, os.path.join(VERIF, "driver"))
from props import PROPS  # noqa: E402

ENV = dict(os.environ)
ENV["CARGO_NET_OFFLINE"] = "true"
ENV.setdefault("CARGO_TERM_COLOR", "never")


def log(msg):
    print(msg, flush=True)


# ----------------------------------------------------------------------------- build

FLAVORS = {
    # name: (cargo args, env additions, path of binary relative to HARNESS)
    "native": (["cargo", "build", "--release"], {}, "target/release/mhv"),
    "relfast": (["cargo", "build", "--profile", "relfast"], {}, "target/relfast/mhv"),
    # unoptimised build (what `cargo test` users run): real stack frames per call, no tail-call elimination
    "debug": (["cargo", "build"], {}, "target/debug/mhv"),
    "asan": (
        ["cargo", "+nightly", "build", "--release", "--target", "x86_64-unknown-linux-gnu",
         "--target-dir", "target-asan"],
        {"RUSTFLAGS": "-Zsanitizer=address -Cforce-frame-pointers=yes"},
        "target-asan/x86_64-unknown-linux-gnu/release/mhv",
    ),
}


def build(flavor):
    args, env_add, rel = FLAVORS[flavor]
    env = dict(ENV)
    env.update(env_add)
    t0 = time.time()
    p = subprocess.run(args, cwd=HARNESS, env=env, stdout=subprocess.PIPE, stderr=subprocess.STDOUT, text=True)
    if p.returncode != 0:
        tail = "\n".join(p.stdout.splitlines()[-40:])
        return None, "build of flavour %s failed:\n%s" % (flavor, tail)
    log("[build] %s ok in %.1fs" % (flavor, time.time() - t0))
    return os.path.join(HARNESS, rel), None


# ----------------------------------------------------------------------------- shards

def proc_state(pid):
    """What a stuck process is doing: (syscall line, state char, utime+stime ticks, threads)."""
    try:
        with open("/proc/%d/syscall" % pid) as f:
            sc = f.read().strip()
    except OSError:
        sc = "?"
    try:
        with open("/proc/%d/stat" % pid) as f:
            st = f.read()
        rest = st[st.rindex(")") + 2:].split()
        state, utime, stime, threads = rest[0], int(rest[11]), int(rest[12]), int(rest[17])
    except (OSError, ValueError, IndexError):
        state, utime, stime, threads = "?", 0, 0, 0
    return sc, state, utime + stime, threads


def read_announce(path):
    try:
        with open(path, "rb") as f:
            b = f.read(8)
        if len(b) == 8:
            return int.from_bytes(b, "little")
    except OSError:
        pass
    return None


class Shard:
    def __init__(self, idx, cmd, out, announce, logf, env=None, wrapper=None):
        self.idx = idx
        self.cmd = cmd
        self.out = out
        self.announce = announce
        self.logf = logf
        self.env = env or ENV
        self.proc = None
        self.status = None  # "ok" | "crash" | "timeout"
        self.rc = None
        self.stuck_info = None
        # the harness itself never sleeps or blocks: a shard (run directly, not under a wrapper) that burns no
        # CPU for a while is stuck inside the code under test
        self.idle_check = wrapper is None
        self.last_cpu = None
        self.idle_since = None

    def start(self):
        self.log_handle = open(self.logf, "w")
        self.proc = subprocess.Popen(self.cmd, stdout=self.log_handle, stderr=subprocess.STDOUT, env=self.env,
                                     cwd=HARNESS, start_new_session=True)
        self.t0 = time.time()


IDLE_LIMIT_S = 25


def run_shards(shards, timeout_s, parallel=16):
    """Runs shards with a bounded number in flight, a wall-clock watchdog per shard, and an idleness
    detector (no CPU consumed for IDLE_LIMIT_S seconds while sleeping in a system call)."""
    pending = list(shards)
    running = []
    last_sample = 0
    while pending or running:
        while pending and len(running) < parallel:
            s = pending.pop(0)
            s.start()
            running.append(s)
        time.sleep(0.05)
        now = time.time()
        sample = now - last_sample >= 2.0
        if sample:
            last_sample = now
        for s in list(running):
            rc = s.proc.poll()
            if rc is not None:
                s.rc = rc
                s.status = "ok" if rc == 0 and os.path.exists(s.out) else "crash"
                s.log_handle.close()
                running.remove(s)
                continue
            stuck = None
            if now - s.t0 > timeout_s:
                a = proc_state(s.proc.pid)
                time.sleep(1.0)
                b = proc_state(s.proc.pid)
                stuck = {"syscall": b[0], "state": b[1], "cpu_ticks_in_1s": b[2] - a[2], "threads": b[3], "why": "watchdog %ds" % timeout_s}
            elif sample and s.idle_check:
                st = proc_state(s.proc.pid)
                if s.last_cpu is not None and st[2] == s.last_cpu and st[1] in ("S", "D"):
                    if s.idle_since is None:
                        s.idle_since = now
                    elif now - s.idle_since >= IDLE_LIMIT_S:
                        stuck = {"syscall": st[0], "state": st[1], "cpu_ticks_in_1s": 0, "threads": st[3], "why": "no CPU consumed for %ds" % IDLE_LIMIT_S}
                else:
                    s.idle_since = None
                s.last_cpu = st[2]
            if stuck is not None:
                s.stuck_info = stuck
                try:
                    os.killpg(s.proc.pid, signal.SIGKILL)
                except OSError:
                    pass
                s.proc.wait()
                s.rc = -9
                s.status = "timeout"
                s.log_handle.close()
                running.remove(s)
    return shards


BLOCKING_SYSCALLS = {"0": "read", "1": "write", "7": "poll", "20": "writev", "23": "select", "43": "accept", "44": "sendto", "45": "recvfrom",
                     "46": "sendmsg", "47": "recvmsg", "232": "epoll_wait", "271": "ppoll", "281": "epoll_pwait", "288": "accept4",
                     "441": "epoll_pwait2"}


# ----------------------------------------------------------------------------- known findings

def load_known():
    path = os.path.join(VERIF, "known_findings.json")
    try:
        with open(path) as f:
            return json.load(f).get("findings", [])
    except (OSError, ValueError):
        return []


def match_known(known, prop, sig, detail):
    for k in known:
        if k.get("kind") != "known" or k.get("property") != prop:
            continue
        if k.get("signature") and k["signature"] != sig:
            continue
        pat = k.get("detail_regex")
        if pat and not re.search(pat, detail):
            continue
        return k
    return None


# ----------------------------------------------------------------------------- main

def parse_args(argv):
    a = {"prop": None, "tier": None, "seed": None, "shards": 16, "replay": None, "keep": False}
    i = 0
    pos = []
    while i < len(argv):
        x = argv[i]
        if x == "--seed":
            a["seed"] = int(argv[i + 1]); i += 2
        elif x == "--shards":
            a["shards"] = int(argv[i + 1]); i += 2
        elif x == "--replay":
            a["replay"] = argv[i + 1]; i += 2
        elif x == "--keep":
            a["keep"] = True; i += 1
        else:
            pos.append(x); i += 1
    if pos:
        a["prop"] = pos[0].upper()
    if len(pos) > 1:
        a["tier"] = pos[1]
    if a["tier"] is None:
        a["tier"] = os.environ.get("VERIF_TIER", "quick")
    if a["tier"] not in ("quick", "thorough"):
        a["tier"] = "quick"
    if a["seed"] is None:
        try:
            a["seed"] = int(os.environ.get("VERIF_SEED", "1"))
        except ValueError:
            a["seed"] = 1
    return a


def write_evidence(prop, tier, seed, meta, coverage, wall, nviol, extra_assumptions=()):
    ev = {
        "property_id": prop,
        "tier": tier,
        "seed": seed,
        "level": meta["level"],
        "coverage": coverage,
        "assumptions": list(meta.get("assumptions", [])) + list(extra_assumptions),
        "wall_s": round(wall, 2),
        "violations": nviol,
    }
    os.makedirs(os.path.join(VERIF, "evidence"), exist_ok=True)
    path = os.path.join(VERIF, "evidence", prop + ".json")
    tmp = path + ".tmp"
    with open(tmp, "w") as f:
        json.dump(ev, f, indent=1, ensure_ascii=False)
        f.write("\n")
    os.replace(tmp, path)
    return path


def main():
    args = parse_args(sys.argv[1:])
    prop = args["prop"]
    if prop not in PROPS:
        log("unknown property %r; known: %s" % (prop, " ".join(sorted(PROPS))))
        return 2
    meta = PROPS[prop]
    tier, seed = args["tier"], args["seed"]
    t_start = time.time()
    run_dir = os.path.join(VERIF, ".run", "%s-%d" % (prop, os.getpid()))
    os.makedirs(run_dir, exist_ok=True)
    try:
        return run(args, prop, meta, tier, seed, run_dir, t_start)
    finally:
        if not args["keep"]:
            shutil.rmtree(run_dir, ignore_errors=True)
            try:
                os.rmdir(os.path.join(VERIF, ".run"))
            except OSError:
                pass


def run(args, prop, meta, tier, seed, run_dir, t_start):
    # ---- replay mode
    if args["replay"]:
        args["replay"] = os.path.abspath(args["replay"])
        binp, err = build("native")
        if err:
            log(err)
            log("INCONCLUSIVE property=%s reason=build-failed" % prop)
            return 2
        with open(args["replay"]) as f:
            rj = json.load(f)
        case = rj.get("case", {})
        if case.get("mode") == "regen":
            cmd = [binp, prop, "--tier", case["tier"], "--seed", str(case["seed"]), "--shard", str(case["shard"]),
                   "--nshards", str(case["nshards"]), "--only-case", str(case["case_no"]),
                   "--out", os.path.join(run_dir, "replay.json"), "--run-dir", run_dir]
            p = subprocess.run(cmd, cwd=HARNESS, env=ENV)
            log("regenerated case %s exited with status %s" % (case["case_no"], p.returncode))
            return 1 if p.returncode != 0 else 0
        cmd = [binp, prop, "--replay", args["replay"], "--run-dir", run_dir]
        p = subprocess.run(cmd, cwd=HARNESS, env=ENV)
        return p.returncode

    stages = meta.get("stages", {}).get(tier) or [{"flavor": "native", "shards": args["shards"], "scale": 100}]
    known = load_known()
    merged = {"evaluations": 0, "counters": {}, "samples": [], "violations": [], "violations_total": 0, "notes": []}
    fp_files = []
    st_files = []
    distinct_overflow = 0
    inconclusive = []
    stage_notes = []
    skipped_stages = set()
    timeout_s = meta.get("timeout", {}).get(tier, 900 if tier == "quick" else 7200)

    lost = []
    for st in stages:
        flavor = st["flavor"]
        nsh = int(st.get("shards", args["shards"]))
        scale = int(st.get("scale", 100))
        prefix = "" if flavor == "native" else flavor + ":"
        if flavor == "miri":
            shards, err = miri_shards(prop, tier, seed, nsh, scale, run_dir, st)
        else:
            binp, err = build(st.get("binary_flavor", flavor))
            if not err and st.get("needs_tool") and shutil.which(st["needs_tool"]) is None:
                err = "tool %s is not installed" % st["needs_tool"]
            shards = []
            if not err:
                for i in range(nsh):
                    out = os.path.join(run_dir, "%s-%d.json" % (flavor, i))
                    ann = os.path.join(run_dir, "%s-%d.ann" % (flavor, i))
                    wrapper = [w.replace("{log}", os.path.join(run_dir, "%s-%d.trace" % (flavor, i))) for w in st.get("wrapper", [])]
                    cmd = wrapper + [binp, prop, "--tier", st.get("tier_override", tier), "--seed", str(seed), "--shard", str(i),
                           "--nshards", str(nsh), "--out", out, "--announce", ann, "--flavor", flavor,
                           "--scale", str(scale), "--run-dir", run_dir]
                    env = dict(ENV)
                    env.update(st.get("env", {}))
                    shards.append(Shard(i, cmd, out, ann, os.path.join(run_dir, "%s-%d.log" % (flavor, i)), env=env,
                                        wrapper=(wrapper or None)))
        if err:
            log(err)
            if st.get("optional"):
                stage_notes.append("stage %s skipped: %s" % (flavor, err.splitlines()[0]))
                skipped_stages.add(flavor)
                continue
            log("INCONCLUSIVE property=%s reason=build-failed flavor=%s" % (prop, flavor))
            return 2
        t0 = time.time()
        run_shards(shards, st.get("timeout", timeout_s))
        log("[run] %s: %d shards of %s/%s finished in %.1fs" % (flavor, len(shards), prop, tier, time.time() - t0))
        if st.get("post"):
            post_process(prop, tier, seed, st, flavor, shards, run_dir, merged, stage_notes)
        for s in shards:
            if s.status == "ok":
                try:
                    with open(s.out) as f:
                        rep = json.load(f)
                except (OSError, ValueError) as e:
                    inconclusive.append("shard %s/%d produced an unreadable report (%s)" % (flavor, s.idx, e))
                    continue
                merged["evaluations"] += rep["evaluations"]
                for k, v in rep["counters"].items():
                    kk = prefix + k
                    if k.startswith("max_"):
                        merged["counters"][kk] = max(merged["counters"].get(kk, 0), v)
                    else:
                        merged["counters"][kk] = merged["counters"].get(kk, 0) + v
                if len(merged["samples"]) < 8:
                    merged["samples"].extend(rep["samples"][: max(1, 8 // max(1, len(shards)))])
                for v in rep["violations"]:
                    v["flavor"] = flavor
                    merged["violations"].append(v)
                merged["violations_total"] += rep["violations_total"]
                merged["notes"].extend(rep.get("notes", []))
                distinct_overflow += rep.get("distinct_overflow", 0)
                if os.path.exists(s.out + ".fp"):
                    fp_files.append(s.out + ".fp")
                if os.path.exists(s.out + ".st"):
                    st_files.append(s.out + ".st")
            else:
                lost.append((s, flavor, st))

    if lost:
        handle_lost_shards(prop, tier, seed, lost, merged, inconclusive, run_dir)

    # ---- distinct count = size of the union of the shards' fingerprint sets
    distinct = 0
    if fp_files:
        binp = os.path.join(HARNESS, FLAVORS["native"][2])
        if not os.path.exists(binp):
            binp, _ = build("native")
        p = subprocess.run([binp, "merge-fp"] + fp_files, stdout=subprocess.PIPE, text=True)
        try:
            distinct = int(p.stdout.strip())
        except ValueError:
            distinct = 0

    states = 0
    if st_files:
        binp = os.path.join(HARNESS, FLAVORS["native"][2])
        p = subprocess.run([binp, "merge-fp"] + st_files, stdout=subprocess.PIPE, text=True)
        try:
            states = int(p.stdout.strip())
        except ValueError:
            states = 0

    # ---- verdicts
    os.makedirs(os.path.join(VERIF, "replay"), exist_ok=True)
    new_violations = []
    known_hits = {}
    for v in merged["violations"]:
        k = match_known(known, prop, v["sig"], v["detail"])
        if k is not None:
            known_hits.setdefault(k["id"], (k, v))
            continue
        new_violations.append(v)
    for kid, (k, v) in known_hits.items():
        log("KNOWN-FINDING: property=%s %s [%s]" % (prop, k.get("what", v["sig"]), kid))
    printed = set()
    for v in new_violations:
        body = json.dumps(v["case"], sort_keys=True)
        h = hashlib.sha1((v["sig"] + body).encode()).hexdigest()[:12]
        path = os.path.join(VERIF, "replay", "%s-%s.json" % (prop, h))
        with open(path, "w") as f:
            json.dump({"property": prop, "sig": v["sig"], "detail": v["detail"], "flavor": v.get("flavor", "native"),
                       "tier": tier, "seed": seed, "case": v["case"]}, f, indent=1)
        if v["sig"] not in printed or len(printed) < 10:
            log("  violation sig=%s\n    %s" % (v["sig"], v["detail"][:1200]))
        printed.add(v["sig"])
        log("VIOLATION property=%s replay=%s" % (prop, path))

    # ---- coverage floors (a run that observed nothing relevant is not green)
    floors = meta.get("floors", {}).get(tier, meta.get("floors", {}).get("any", {}))
    missing = []
    for key, minimum in floors.items():
        if ":" in key and key.split(":")[0] in skipped_stages:
            continue
        if merged["counters"].get(key, 0) < minimum:
            missing.append("%s=%d<%d" % (key, merged["counters"].get(key, 0), minimum))
    if merged["evaluations"] < 1:
        missing.append("evaluations=0")

    wall = time.time() - t_start
    coverage = {
        "evaluations": merged["evaluations"],
        "distinct_nontrivial": distinct,
        "rule": meta["rule"],
        "samples": merged["samples"][:8] or [{"note": "no sample recorded"}],
        "observed": dict(sorted(merged["counters"].items())),
        "stages": [s["flavor"] for s in stages],
    }
    if states:
        coverage["states"] = states
        coverage["states_note"] = "distinct abstract server states observed after polling calls (multiset of per-connection state x in-flight class x pending output x parser state x carried bytes, + outstanding requests, + clients waiting on the listener); read from the read-only probe, evidence only"
    if distinct_overflow:
        coverage["distinct_not_counted_after_cap"] = distinct_overflow
    if meta.get("exhaustive", {}).get(tier):
        coverage["exhaustive"] = True
        coverage["exhaustive_scope"] = meta["exhaustive"][tier]
    if stage_notes:
        coverage["stage_notes"] = stage_notes
    if merged["notes"]:
        coverage["notes"] = sorted(set(merged["notes"]))[:20]
    if known_hits:
        coverage["known_findings_observed"] = sorted(known_hits)
    write_evidence(prop, tier, seed, meta, coverage, wall, len(new_violations))
    log("[done] %s %s seed=%d: %d evaluations, %d distinct non-trivial, %d violations (%d known), %.1fs"
        % (prop, tier, seed, merged["evaluations"], distinct, len(new_violations), len(known_hits), wall))
    if new_violations:
        return 1
    if inconclusive or missing:
        for r in inconclusive:
            log("INCONCLUSIVE property=%s reason=%s" % (prop, r))
        if missing:
            log("INCONCLUSIVE property=%s reason=coverage-floor-not-reached %s" % (prop, " ".join(missing)))
        return 2
    return 0


def handle_lost_shards(prop, tier, seed, lost, merged, inconclusive, run_dir):
    """Shards that died or got stuck: every announced case is re-run alone (all re-runs in parallel); only a
    reproduced crash, a sanitizer report, or a process that is again provably blocked / spinning is a violation,
    anything else is inconclusive."""
    reruns = []
    for (s, flavor, st) in lost:
        case_no = read_announce(s.announce)
        tail = ""
        try:
            with open(s.logf, errors="replace") as f:
                tail = "".join(f.readlines()[-15:])
        except OSError:
            pass
        if flavor in ("asan", "miri") and s.status == "crash":
            try:
                with open(s.logf, errors="replace") as f:
                    full = f.read(2_000_000)
            except OSError:
                full = ""
            mm = re.search(r"^.*(ERROR: AddressSanitizer|ERROR: LeakSanitizer|error: Undefined Behavior|error: memory leaked|error: unsupported operation|error: .*data race).*$", full, re.M)
            if mm and "unsupported operation" not in mm.group(0):
                lines = full[mm.start():].splitlines()
                keep = [l for l in lines if not l.startswith("warning")][:40]
                case = {"mode": "regen", "tier": tier, "seed": seed, "shard": s.idx, "nshards": int(st.get("shards", 16)),
                        "case_no": case_no or 0, "flavor": flavor}
                kind = "asan" if "Sanitizer" in mm.group(0) else "miri"
                what = re.sub(r"==\d+==", "", mm.group(0)).strip()
                what = re.sub(r" on address.*| at pc.*", "", what)
                merged["violations"].append({"sig": "%s:sanitizer-%s" % (prop, kind), "detail": what + "\n" + "\n".join(keep), "case": case, "flavor": flavor})
                continue
            if mm:
                inconclusive.append("miri shard %d met an operation Miri does not support: %s" % (s.idx, mm.group(0)[:200]))
                continue
        if case_no is None or flavor in ("miri", "strace", "valgrind"):
            inconclusive.append("shard %s/%d %s (rc=%s) without a re-runnable announced case; log tail: %s" % (flavor, s.idx, s.status, s.rc, tail[-300:].replace("\n", " | ")))
            continue
        cmd = [c for c in s.cmd]
        out = os.path.join(run_dir, "rerun-%s-%d.json" % (flavor, s.idx))
        cmd[cmd.index("--out") + 1] = out
        cmd += ["--only-case", str(case_no)]
        rs = Shard(s.idx, cmd, out, s.announce + ".rerun", s.logf + ".rerun", env=s.env)
        cmd[cmd.index("--announce") + 1] = rs.announce
        reruns.append((s, flavor, st, case_no, tail, rs))
    if reruns:
        log("[lost] re-running %d announced cases in isolation" % len(reruns))
        run_shards([r[5] for r in reruns], 120)
    for (s, flavor, st, case_no, tail, rs) in reruns:
        case = {"mode": "regen", "tier": tier, "seed": seed, "shard": s.idx, "nshards": int(st.get("shards", 16)), "case_no": case_no,
                "flavor": flavor}
        if s.status == "crash" and rs.status == "crash":
            merged["violations"].append({"sig": "%s:process-died" % prop,
                                         "detail": "shard died with status %s at case %d and dies again when that case runs alone (status %s); log: %s"
                                         % (s.rc, case_no, rs.rc, tail[-600:]), "case": case, "flavor": flavor})
        elif s.status == "timeout" and rs.status == "timeout":
            info = rs.stuck_info or {}
            num = (info.get("syscall") or "").split(" ")[0]
            sleeping = info.get("state") in ("S", "D") and info.get("cpu_ticks_in_1s", 0) == 0
            spinning = info.get("cpu_ticks_in_1s", 0) >= 50
            if sleeping and num in BLOCKING_SYSCALLS:
                merged["violations"].append({"sig": "%s:blocked" % prop,
                                             "detail": "case %d, run alone, sleeps in %s() and consumes no CPU (%s): a call into the code under test blocks; the harness itself only uses non-blocking descriptors and zero-timeout polls"
                                             % (case_no, BLOCKING_SYSCALLS[num], json.dumps(info)), "case": case, "flavor": flavor})
            elif spinning:
                merged["violations"].append({"sig": "%s:never-terminates" % prop,
                                             "detail": "case %d does not finish when run alone for 120 s and keeps burning CPU: %s" % (case_no, json.dumps(info)),
                                             "case": case, "flavor": flavor})
            else:
                inconclusive.append("case %d of shard %d got stuck twice but the process state is unclear: %s" % (case_no, s.idx, json.dumps(info)))
        else:
            inconclusive.append("shard %s/%d %s at case %s (rc=%s) but the case alone ends with %s; log tail: %s"
                                % (flavor, s.idx, s.status, case_no, s.rc, rs.status, tail[-300:].replace("\n", " | ")))


def post_process(prop, tier, seed, st, flavor, shards, run_dir, merged, stage_notes):
    """Offline checkers over tool logs: strace descriptor lifecycle, valgrind --track-fds."""
    kind = st["post"]
    for s in shards:
        trace = os.path.join(run_dir, "%s-%d.trace" % (flavor, s.idx))
        case = {"mode": "regen", "tier": tier, "seed": seed, "shard": s.idx, "nshards": int(st.get("shards", 1)), "case_no": 0, "flavor": flavor}
        if kind == "strace_fd_lifecycle":
            # every close() of the process must succeed: a close that fails with EBADF is a second close of a
            # descriptor that was already handed out and closed (or of a number that was never open)
            n_close = n_bad = n_rights = 0
            first_bad = None
            try:
                with open(trace, errors="replace") as f:
                    for line in f:
                        if "close(" in line and re.search(r"close\(\d+\)\s*=\s*-?\d+", line):
                            n_close += 1
                            if "EBADF" in line:
                                n_bad += 1
                                first_bad = first_bad or line.strip()
                        elif "SCM_RIGHTS" in line and "recvmsg(" in line:
                            n_rights += 1
            except OSError:
                stage_notes.append("strace log of shard %d missing (ptrace not permitted?)" % s.idx)
                continue
            merged["counters"]["strace:close_calls_observed"] = merged["counters"].get("strace:close_calls_observed", 0) + n_close
            merged["counters"]["strace:recvmsg_with_scm_rights_observed"] = merged["counters"].get("strace:recvmsg_with_scm_rights_observed", 0) + n_rights
            if n_bad:
                merged["violations"].append({"sig": "%s:close-of-closed-descriptor" % prop,
                                             "detail": "strace saw %d close() calls fail with EBADF, first: %s" % (n_bad, first_bad),
                                             "case": case, "flavor": flavor})
        elif kind == "valgrind_track_fds":
            try:
                with open(trace, errors="replace") as f:
                    text = f.read()
            except OSError:
                stage_notes.append("valgrind log of shard %d missing" % s.idx)
                continue
            leaked = []
            for m in re.finditer(r"Open (AF_UNIX socket|file descriptor) (\d+):\s*(.*)", text):
                what, fd, rest = m.group(1), int(m.group(2)), m.group(3).strip()
                if fd <= 2 or "<inherited from parent>" in text[m.end():m.end() + 120]:
                    continue
                # the shard's own report / announce files are expected; sockets, eventfds and /dev/null are not
                if what.startswith("AF_UNIX") or "eventfd" in rest or rest.startswith("/dev/null") or "socket" in rest:
                    leaked.append("%s %d %s" % (what, fd, rest))
            merged["counters"]["valgrind:exit_descriptor_reports_checked"] = merged["counters"].get("valgrind:exit_descriptor_reports_checked", 0) + 1
            errs = re.search(r"ERROR SUMMARY: (\d+) errors", text)
            if errs and int(errs.group(1)) > 0:
                merged["violations"].append({"sig": "%s:valgrind-memcheck" % prop, "detail": "memcheck reported %s errors; log tail: %s" % (errs.group(1), text[-1500:]), "case": case, "flavor": flavor})
            if leaked:
                merged["violations"].append({"sig": "%s:descriptor-open-at-exit" % prop, "detail": "valgrind --track-fds: still open at exit: %s" % "; ".join(leaked[:6]), "case": case, "flavor": flavor})


def describe_syscall(line):
    # x86_64: 232 = epoll_wait, 281 = epoll_pwait, 441 = epoll_pwait2
    num = line.split(" ")[0] if line else ""
    return {"232": "epoll_wait", "281": "epoll_wait(pwait)", "441": "epoll_wait(pwait2)"}.get(num, num)


def miri_shards(prop, tier, seed, nsh, scale, run_dir, st):
    """Miri flavour: `cargo +nightly miri run` per shard; results come back on stdout."""
    env = dict(ENV)
    env["MIRIFLAGS"] = st.get("miriflags", "-Zmiri-disable-isolation")
    env["CARGO_TARGET_DIR"] = os.path.join(HARNESS, "target-miri")
    # build once (also builds the sysroot on first use)
    t0 = time.time()
    p = subprocess.run(["cargo", "+nightly", "miri", "run", "--release", "--", "merge-fp"], cwd=HARNESS, env=env,
                       stdout=subprocess.PIPE, stderr=subprocess.STDOUT, text=True)
    if p.returncode != 0:
        return [], "miri build failed:\n" + "\n".join(p.stdout.splitlines()[-30:])
    log("[build] miri ok in %.1fs" % (time.time() - t0))
    shards = []
    for i in range(nsh):
        out = os.path.join(run_dir, "miri-%d.json" % i)
        ann = os.path.join(run_dir, "miri-%d.ann" % i)
        cmd = ["cargo", "+nightly", "miri", "run", "--release", "--", prop, "--tier", tier, "--seed", str(seed), "--shard", str(i),
               "--nshards", str(nsh), "--out", out, "--announce", ann, "--flavor", "miri", "--scale", str(scale),
               "--run-dir", run_dir]
        shards.append(Shard(i, cmd, out, ann, os.path.join(run_dir, "miri-%d.log" % i), env=env, wrapper=["cargo-miri"]))
    return shards, None


if __name__ == "__main__":
    sys.exit(main())
