#!/bin/bash
# reseed.sh [pattern]  — applies every kept seeded change to /repo in turn, runs the quick check of the property
# it breaks, undoes it, and prints caught / MISSED. Sequential (the patches go into /repo itself).
cd /verif
missed=0
for d in seeded/${1:-C}*/; do
  id=$(basename $d); prop=${id%%-*}
  [ -f $d/patch.diff ] || continue
  out=$(driver/try_patch.sh /verif/$d/patch.diff -- ./check $prop quick 2>&1)
  rc=$(echo "$out" | grep -oE "exit status [0-9]+" | tail -1 | awk '{print $3}')
  sig=$(echo "$out" | grep -oE "violation sig=[^ ]+" | sort | uniq -c | sort -rn | head -2 | awk '{print $3}' | tr '\n' ' ')
  if [ "$rc" = "1" ]; then echo "$id caught $sig"; else echo "$id MISSED (exit $rc)"; missed=$((missed+1)); fi
done
rm -rf /verif/replay
echo "missed: $missed"
git -C /repo status --short | grep -v '^??' && echo "WARNING /repo not clean"
exit $missed
