#!/usr/bin/env python3
"""Prints, per property, the smallest ratio observed/floor in the current evidence file (tier-aware)."""
import json, os, sys
sys.path.insert(0, os.path.dirname(os.path.abspath(__file__)))
from props import PROPS
for pid, m in sorted(PROPS.items()):
    try:
        ev = json.load(open("/verif/evidence/%s.json" % pid))
    except OSError:
        continue
    tier = ev["tier"]
    floors = m.get("floors", {}).get(tier, m.get("floors", {}).get("any", {}))
    obs = ev["coverage"].get("observed", {})
    worst = min(((obs.get(k, 0) / v, k) for k, v in floors.items()), default=(99, "-"))
    print("%s %s seed=%s  min observed/floor = %.1f (%s)  wall=%ss" % (pid, tier, ev["seed"], worst[0], worst[1], ev["wall_s"]))
