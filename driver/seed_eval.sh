#!/bin/bash
# seed_eval.sh <seed-id> <agent-worktree> <PROP> [extra checks...]
# 1. confirms the seeded change in a fresh scratch worktree: existing tests pass with it, demo fails with it, demo passes without it
# 2. stores it under /verif/seeded/<seed-id>/   3. runs ./check PROP quick (and extras) against it and records whether it is caught
set -u
sid=$1; wt=$2; prop=$3; shift 3; extra="$@"
dst=/verif/seeded/$sid; mkdir -p $dst
cp $wt/patch.diff $dst/patch.diff || exit 2
cp $wt/tests/demo.rs $dst/demo.rs 2>/dev/null || cp $wt/tests/demo_*.rs $dst/demo.rs || exit 2
cp $wt/meta.txt $dst/agent_meta.txt 2>/dev/null
scratch=/tmp/seed/verify-$sid
git -C /repo worktree remove --force $scratch 2>/dev/null
git -C /repo worktree add --detach $scratch HEAD >/dev/null 2>&1 || exit 2
cd $scratch
export CARGO_NET_OFFLINE=true
git apply $dst/patch.diff || { echo "patch does not apply"; exit 2; }
suite=$(timeout 900 cargo test --offline 2>&1 | grep -E "^test result" | tr '\n' ' ')
suite_ok=$(echo "$suite" | grep -c "62 passed; 0 failed")
mkdir -p tests; cp $dst/demo.rs tests/demo.rs
timeout 600 cargo test --offline --test demo >/tmp/seed/verify-$sid.with.log 2>&1; with_rc=$?
git apply -R $dst/patch.diff
timeout 600 cargo test --offline --test demo >/tmp/seed/verify-$sid.without.log 2>&1; without_rc=$?
cd /verif
git -C /repo worktree remove --force $scratch
echo "suite: $suite"
echo "demo with change rc=$with_rc (expect !=0), without rc=$without_rc (expect 0)"
caught=""
for p in $prop $extra; do
  out=$(driver/try_patch.sh $dst/patch.diff -- ./check $p quick 2>&1)
  rc=$(echo "$out" | grep -oE "exit status [0-9]+" | tail -1 | awk '{print $3}')
  sigs=$(echo "$out" | grep -oE "violation sig=[^ ]+" | sort | uniq -c | sort -rn | head -4 | tr '\n' ';')
  echo "check $p: exit $rc  $sigs"
  caught="$caught{\"check\":\"$p\",\"exit\":$rc,\"signatures\":\"$sigs\"},"
done
python3 - "$sid" "$prop" "$suite_ok" "$with_rc" "$without_rc" "[${caught%,}]" <<'PY'
import json,sys
sid,prop,suite_ok,with_rc,without_rc,caught=sys.argv[1:7]
d="/verif/seeded/%s/"%sid
meta={"seed_id":sid,"breaks_property":prop,
 "needs_to_manifest":open(d+"agent_meta.txt").read() if __import__("os").path.exists(d+"agent_meta.txt") else "",
 "confirmed":{"existing_suite_62_pass_with_change":suite_ok=="1","demo_fails_with_change":with_rc!="0","demo_passes_without_change":without_rc=="0",
              "how":"fresh scratch worktree of /repo HEAD: git apply patch.diff; cargo test --offline; cargo test --offline --test demo; git apply -R; cargo test --offline --test demo"},
 "checks_run":json.loads(caught)}
json.dump(meta,open(d+"meta.json","w"),indent=1)
print("kept" if meta["confirmed"]["existing_suite_62_pass_with_change"] and meta["confirmed"]["demo_fails_with_change"] and meta["confirmed"]["demo_passes_without_change"] else "NOT CONFIRMED")
PY
rm -rf /verif/replay
