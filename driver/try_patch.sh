#!/bin/sh
# try_patch.sh [-R] <patch-file | commit> -- <command...>   apply to /repo, run the command in /verif, always undo.
rev=""
if [ "$1" = "-R" ]; then rev="-R"; shift; fi
src="$1"; shift; shift
if [ -f "$src" ]; then
  git -C /repo apply $rev "$src" || exit 3
else
  git -C /repo show "$src" | git -C /repo apply $rev || exit 3
fi
(cd /verif && "$@"); rc=$?
git -C /repo checkout -- .
git -C /repo status --short | grep -v '^??' && echo "WARNING: /repo not clean"
echo "exit status $rc"
