#!/usr/bin/env python3
"""try_mutant.py FILE 'old' 'new' -- ./check C01 quick   : apply a one-spot textual mutation to /repo, run, revert."""
import subprocess, sys
i = sys.argv.index("--")
f, old, new = sys.argv[1:4]
cmd = sys.argv[i + 1:]
p = "/repo/" + f
s = open(p).read()
if s.count(old) != 1:
    print("pattern occurs %d times" % s.count(old)); sys.exit(3)
open(p, "w").write(s.replace(old, new))
try:
    rc = subprocess.call(cmd, cwd="/verif")
    print("exit status", rc)
finally:
    subprocess.call(["git", "-C", "/repo", "checkout", "--", "."])
